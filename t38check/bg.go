package main

import (
	"fmt"
	"go/ast"
	"go/constant"
	"go/token"
	"go/types"
	"sort"
	"strings"

	"golang.org/x/tools/go/cfg"
)

// ---------------------------------------------------------------------------
// BG — bounds-guard prover (DESIGN.md 3.7): a zone (difference-bound) abstract
// interpretation over go/cfg. Variables are integer locals and len(<path>)
// terms; constraints have the form a - b <= k (with a distinguished zero).
// Nothing is executed; the transfer functions are the usual ones for
// assume / shift / forget / join, with widening after three visits.

const inf = int64(1) << 40

var bgDebug = false

// bgNoMsgAssume: while the construction sites of Message are being checked the
// invariant they establish must not be assumed
var bgNoMsgAssume = false

// intSummary: bounds of an integer result of a tile38 function, computed in a first pass:
// result >= lo (when hasLo), and result - len(param[j]) <= rel[j].
type intSummary struct {
	hasLo bool
	lo    int64
	rel   map[int]int64
	n     int // returns seen
}

var (
	bgRetSummary = map[*types.Func]*intSummary{}
	bgCollect    = false
	// bgCallLower[callee][param index] = smallest lower bound of len(arg) over the static call sites seen
	bgCallLower = map[*types.Func]map[int]int64{}
	bgCallSites = map[*types.Func]int{}
	// functions all of whose references in the module are calls (no function values, not exported API)
	bgOnlyCalled = map[*types.Func]bool{}
)

type zone struct {
	n int
	m []int64 // m[i*n+j] = bound on v_i - v_j ; index 0 is the constant zero
	// bottom: unreachable
	bot bool
}

func newZone(n int) *zone {
	z := &zone{n: n, m: make([]int64, n*n)}
	for i := range z.m {
		z.m[i] = inf
	}
	for i := 0; i < n; i++ {
		z.m[i*n+i] = 0
	}
	return z
}

func (z *zone) clone() *zone {
	c := &zone{n: z.n, m: append([]int64(nil), z.m...), bot: z.bot}
	return c
}

func (z *zone) get(i, j int) int64 { return z.m[i*z.n+j] }

// ensure the zone has room for variable index i (new variables are unconstrained)
func (z *zone) ensure(i int) {
	if i < z.n {
		return
	}
	n := i + 1
	m := make([]int64, n*n)
	for k := range m {
		m[k] = inf
	}
	for a := 0; a < n; a++ {
		m[a*n+a] = 0
	}
	for a := 0; a < z.n; a++ {
		for b := 0; b < z.n; b++ {
			m[a*n+b] = z.m[a*z.n+b]
		}
	}
	z.n, z.m = n, m
}

// add constraint v_i - v_j <= k
func (z *zone) add(i, j int, k int64) {
	z.ensure(i)
	z.ensure(j)
	if z.bot || i == j {
		if i == j && k < 0 {
			z.bot = true
		}
		return
	}
	if k < z.m[i*z.n+j] {
		z.m[i*z.n+j] = k
		z.closeIncr(i, j)
	}
}

// incremental closure after tightening edge (a,b)
func (z *zone) closeIncr(a, b int) {
	n := z.n
	k := z.m[a*n+b]
	for i := 0; i < n; i++ {
		ia := z.m[i*n+a]
		if ia >= inf {
			continue
		}
		for j := 0; j < n; j++ {
			bj := z.m[b*n+j]
			if bj >= inf {
				continue
			}
			if v := ia + k + bj; v < z.m[i*n+j] {
				z.m[i*n+j] = v
			}
		}
	}
	for i := 0; i < n; i++ {
		if z.m[i*n+i] < 0 {
			z.bot = true
			return
		}
	}
}

func (z *zone) forget(v int) {
	z.ensure(v)
	if z.bot {
		return
	}
	n := z.n
	for i := 0; i < n; i++ {
		if i != v {
			z.m[i*n+v] = inf
			z.m[v*n+i] = inf
		}
	}
}

// shift: v := v + c
func (z *zone) shift(v int, c int64) {
	z.ensure(v)
	if z.bot {
		return
	}
	n := z.n
	for i := 0; i < n; i++ {
		if i == v {
			continue
		}
		if z.m[v*n+i] < inf {
			z.m[v*n+i] += c
		}
		if z.m[i*n+v] < inf {
			z.m[i*n+v] -= c
		}
	}
}

// assignVar: v := w + c
func (z *zone) assignVar(v, w int, c int64) {
	z.ensure(v)
	z.ensure(w)
	if v == w {
		z.shift(v, c)
		return
	}
	z.forget(v)
	z.add(v, w, c)
	z.add(w, v, -c)
}

func (z *zone) join(o *zone) *zone {
	if z.bot {
		return o.clone()
	}
	if o.bot {
		return z.clone()
	}
	r := z.clone()
	for i := range r.m {
		if o.m[i] > r.m[i] {
			r.m[i] = o.m[i]
		}
	}
	return r
}

func (z *zone) equal(o *zone) bool {
	if z.bot != o.bot {
		return false
	}
	if z.bot {
		return true
	}
	for i := range z.m {
		if z.m[i] != o.m[i] {
			return false
		}
	}
	return true
}

// widen: keep only constraints that did not grow
func (z *zone) widen(next *zone) *zone {
	if z.bot {
		return next.clone()
	}
	if next.bot {
		return z.clone()
	}
	r := z.clone()
	for i := range r.m {
		if next.m[i] > r.m[i] {
			r.m[i] = inf
		}
	}
	return r
}

// entails v_i - v_j <= k
func (z *zone) entails(i, j int, k int64) bool {
	if z.bot {
		return true
	}
	if i >= z.n || j >= z.n {
		return i == j && k >= 0
	}
	if i == j {
		return k >= 0
	}
	return z.m[i*z.n+j] <= k
}

// ---------------------------------------------------------------------------

type lin struct {
	v  int // variable index, 0 = constant
	c  int64
	ok bool
}

type bgUnit struct {
	c      *Ctx
	fn     *FuncInfo
	info   *types.Info
	body   *ast.BlockStmt
	name   string
	vars   map[string]int // key → index
	names  []string
	roots  map[int]types.Object // for len terms: root object of the path (kill on assignment)
	isLen  map[int]bool
	noTrk  map[types.Object]bool // variables modified inside nested literals: never tracked
	obls   []*bgOb
	assume map[types.Object]int64 // lower bounds for len of parameters (preconditions established at call sites)
	// construction sites of a slice-typed struct field (R16.message-nonempty)
	siteField *types.Var
	sites     []msgSite
}

type bgOb struct {
	node ast.Node
	desc string
	ok   bool
	why  string
}

func pathKey(info *types.Info, e ast.Expr) (string, types.Object, bool) {
	e = ast.Unparen(e)
	switch x := e.(type) {
	case *ast.Ident:
		o := info.ObjectOf(x)
		if o == nil {
			return "", nil, false
		}
		return fmt.Sprintf("%p", o), o, true
	case *ast.SelectorExpr:
		k, root, ok := pathKey(info, x.X)
		if !ok {
			return "", nil, false
		}
		return k + "." + x.Sel.Name, root, true
	case *ast.StarExpr:
		return pathKey(info, x.X)
	case *ast.IndexExpr:
		if tv, ok := info.Types[x.Index]; ok && tv.Value != nil && tv.Value.Kind() == constant.Int {
			if mt, ok := info.Types[x.X]; ok {
				if _, isMap := mt.Type.Underlying().(*types.Map); isMap {
					return "", nil, false
				}
			}
			k, root, ok := pathKey(info, x.X)
			if !ok {
				return "", nil, false
			}
			return k + "[" + tv.Value.ExactString() + "]", root, true
		}
	case *ast.SliceExpr:
		if x.Low == nil && x.High == nil && x.Max == nil {
			return pathKey(info, x.X)
		}
	}
	return "", nil, false
}

func isIntType(t types.Type) bool {
	b, ok := t.Underlying().(*types.Basic)
	return ok && b.Info()&types.IsInteger != 0
}

func isUnsigned(t types.Type) bool {
	b, ok := t.Underlying().(*types.Basic)
	return ok && b.Info()&types.IsUnsigned != 0
}

func (u *bgUnit) varOf(key string) int {
	if i, ok := u.vars[key]; ok {
		return i
	}
	i := len(u.names) + 1
	u.vars[key] = i
	u.names = append(u.names, key)
	return i
}

func (u *bgUnit) lenVar(e ast.Expr) (int, bool) {
	k, root, ok := pathKey(u.info, e)
	if !ok || u.noTrk[root] {
		return 0, false
	}
	i := u.varOf("len:" + k)
	u.roots[i] = root
	u.isLen[i] = true
	return i, true
}

func (u *bgUnit) intVar(id *ast.Ident) (int, bool) {
	o := u.info.ObjectOf(id)
	if o == nil || u.noTrk[o] {
		return 0, false
	}
	if _, isVar := o.(*types.Var); !isVar || !isIntType(o.Type()) {
		return 0, false
	}
	if v, ok := o.(*types.Var); ok && v.IsField() {
		return 0, false
	}
	i := u.varOf(fmt.Sprintf("v:%p", o))
	u.roots[i] = o
	return i, true
}

// linear: e as var + c.
func (u *bgUnit) linear(e ast.Expr) lin {
	e = ast.Unparen(e)
	if tv, ok := u.info.Types[e]; ok && tv.Value != nil && tv.Value.Kind() == constant.Int {
		if v, exact := constant.Int64Val(tv.Value); exact && v > -inf/4 && v < inf/4 {
			return lin{0, v, true}
		}
		return lin{}
	}
	switch x := e.(type) {
	case *ast.Ident:
		if i, ok := u.intVar(x); ok {
			return lin{i, 0, true}
		}
	case *ast.CallExpr:
		// conversion int(x), int64(x), uint64(x)...
		if tv, ok := u.info.Types[x.Fun]; ok && tv.IsType() && len(x.Args) == 1 && isIntType(tv.Type) {
			// narrowing conversions can change the value; accept conversions between >= 32-bit integer types only
			if at, ok := u.info.Types[x.Args[0]]; ok && isIntType(at.Type) && !isNarrow(tv.Type) {
				return u.linear(x.Args[0])
			}
			return lin{}
		}
		if id, ok := ast.Unparen(x.Fun).(*ast.Ident); ok && id.Name == "len" && len(x.Args) == 1 {
			if _, isB := u.info.Uses[id].(*types.Builtin); isB {
				// constant-length array
				if at, ok := u.info.Types[x.Args[0]]; ok {
					if arr, ok := at.Type.Underlying().(*types.Array); ok {
						return lin{0, arr.Len(), true}
					}
				}
				if i, ok := u.lenVar(x.Args[0]); ok {
					return lin{i, 0, true}
				}
			}
		}
	case *ast.BinaryExpr:
		a, b := u.linear(x.X), u.linear(x.Y)
		if a.ok && b.ok {
			switch x.Op {
			case token.ADD:
				if a.v == 0 {
					return lin{b.v, a.c + b.c, true}
				}
				if b.v == 0 {
					return lin{a.v, a.c + b.c, true}
				}
			case token.SUB:
				if b.v == 0 {
					return lin{a.v, a.c - b.c, true}
				}
			}
		}
	}
	return lin{}
}

func isNarrow(t types.Type) bool {
	b, ok := t.Underlying().(*types.Basic)
	if !ok {
		return true
	}
	switch b.Kind() {
	case types.Int8, types.Int16, types.Uint8, types.Uint16:
		return true
	}
	return false
}

// assumeCmp: a op b holds
func (u *bgUnit) assumeCmp(z *zone, a lin, op token.Token, b lin) {
	if !a.ok || !b.ok {
		return
	}
	// a.v + a.c op b.v + b.c   ⇒   a.v - b.v op' (b.c - a.c)
	k := b.c - a.c
	switch op {
	case token.LSS:
		z.add(a.v, b.v, k-1)
	case token.LEQ:
		z.add(a.v, b.v, k)
	case token.GTR:
		z.add(b.v, a.v, -k-1)
	case token.GEQ:
		z.add(b.v, a.v, -k)
	case token.EQL:
		z.add(a.v, b.v, k)
		z.add(b.v, a.v, -k)
	case token.NEQ:
		// a != b: if a <= b known then a <= b-1, if a >= b known then a >= b+1
		if z.entails(a.v, b.v, k) && !z.entails(a.v, b.v, k-1) {
			z.add(a.v, b.v, k-1)
		} else if z.entails(b.v, a.v, -k) && !z.entails(b.v, a.v, -k-1) {
			z.add(b.v, a.v, -k-1)
		}
	}
}

func negOp(op token.Token) token.Token {
	switch op {
	case token.LSS:
		return token.GEQ
	case token.LEQ:
		return token.GTR
	case token.GTR:
		return token.LEQ
	case token.GEQ:
		return token.LSS
	case token.EQL:
		return token.NEQ
	case token.NEQ:
		return token.EQL
	}
	return token.ILLEGAL
}

// assumeExpr: boolean expression e has the given truth value.
func (u *bgUnit) assumeExpr(z *zone, e ast.Expr, truth bool) {
	e = ast.Unparen(e)
	switch x := e.(type) {
	case *ast.UnaryExpr:
		if x.Op == token.NOT {
			u.assumeExpr(z, x.X, !truth)
		}
	case *ast.BinaryExpr:
		switch x.Op {
		case token.LAND:
			if truth {
				u.assumeExpr(z, x.X, true)
				u.assumeExpr(z, x.Y, true)
			}
		case token.LOR:
			if !truth {
				u.assumeExpr(z, x.X, false)
				u.assumeExpr(z, x.Y, false)
			}
		case token.LSS, token.LEQ, token.GTR, token.GEQ, token.EQL, token.NEQ:
			op := x.Op
			if !truth {
				op = negOp(op)
			}
			// string comparison with ""
			if tv, ok := u.info.Types[x.X]; ok && isStringType(tv.Type) {
				for _, side := range [][2]ast.Expr{{x.X, x.Y}, {x.Y, x.X}} {
					if s, ok := constString(u.info, side[1]); ok && s == "" {
						if lv, ok := u.lenVar(side[0]); ok {
							if op == token.NEQ {
								z.add(0, lv, -1) // len >= 1
							} else if op == token.EQL {
								z.add(lv, 0, 0)
							}
						}
					}
				}
				return
			}
			u.assumeCmp(z, u.linear(x.X), op, u.linear(x.Y))
		}
	case *ast.CallExpr:
		if !truth {
			return
		}
		f := callee(u.info, x)
		if (isFunc(f, "strings", "HasPrefix") || isFunc(f, "strings", "HasSuffix") || isFunc(f, "bytes", "HasPrefix")) && len(x.Args) == 2 {
			if lv, ok := u.lenVar(x.Args[0]); ok {
				if s, ok := constString(u.info, x.Args[1]); ok {
					z.add(0, lv, -int64(len(s)))
				} else if pv, ok := u.lenVar(x.Args[1]); ok {
					z.add(pv, lv, 0) // len(prefix) <= len(x)
				}
			}
		}
	}
}

func isStringType(t types.Type) bool {
	b, ok := t.Underlying().(*types.Basic)
	return ok && b.Info()&types.IsString != 0
}

// forgetObj: drop everything known about variables rooted at o.
func (u *bgUnit) forgetObj(z *zone, o types.Object) {
	for i, r := range u.roots {
		if r == o && i < z.n {
			z.forget(i)
			if u.isLen[i] {
				z.add(0, i, 0) // len >= 0
			}
		}
	}
	// a variable of a struct type with a length invariant keeps it whatever value it is assigned;
	// a *Message variable assigned a new message keeps the non-empty invariant (construction sites are checked)
	u.entryAssumptionsFor(z, o)
}

// forgetPath: an assignment to the path p (e.g. msg.Args): kill len terms whose key starts with it.
func (u *bgUnit) forgetPath(z *zone, e ast.Expr) {
	if ix, isIx := ast.Unparen(e).(*ast.IndexExpr); isIx {
		if _, _, ok := pathKey(u.info, e); !ok {
			// store through a non-constant index: every element term below the base dies
			if bk, _, ok := pathKey(u.info, ix.X); ok {
				for key, i := range u.vars {
					if i < z.n && strings.HasPrefix(key, "len:"+bk+"[") {
						z.forget(i)
						z.add(0, i, 0)
					}
				}
			}
			return
		}
	}
	k, root, ok := pathKey(u.info, e)
	if !ok {
		return
	}
	if _, isIdent := ast.Unparen(e).(*ast.Ident); isIdent {
		u.forgetObj(z, root)
		return
	}
	for key, i := range u.vars {
		if strings.HasPrefix(key, "len:"+k) && i < z.n {
			z.forget(i)
			z.add(0, i, 0)
		}
	}
}

// transfer: effect of a statement node on the zone (after its obligations were checked).
func (u *bgUnit) transfer(z *zone, n ast.Node) {
	if z.bot {
		return
	}
	switch s := n.(type) {
	case *ast.IncDecStmt:
		if id, ok := ast.Unparen(s.X).(*ast.Ident); ok {
			if v, ok := u.intVar(id); ok && v < z.n {
				if s.Tok == token.INC {
					z.shift(v, 1)
				} else {
					z.shift(v, -1)
				}
				return
			}
		}
		u.forgetPath(z, s.X)
	case *ast.AssignStmt:
		if len(s.Lhs) == len(s.Rhs) {
			// evaluate right-hand sides first (parallel assignment): only handle the single case precisely
			if len(s.Lhs) == 1 {
				u.assign1(z, s.Lhs[0], s.Rhs[0], s.Tok)
				return
			}
		}
		for _, l := range s.Lhs {
			u.forgetPath(z, l)
		}
		if len(s.Rhs) == 1 {
			u.postCall(z, s.Lhs, s.Rhs[0])
		}
	case *ast.ValueSpec:
		for i, nm := range s.Names {
			if i < len(s.Values) && len(s.Names) == len(s.Values) {
				u.assign1(z, nm, s.Values[i], token.DEFINE)
			} else if len(s.Values) == 0 {
				// zero value
				if v, ok := u.intVar(nm); ok && v < z.n {
					z.forget(v)
					z.add(v, 0, 0)
					z.add(0, v, 0)
				} else if lv, ok := u.lenVar(nm); ok && lv < z.n {
					if _, isArr := u.info.ObjectOf(nm).Type().Underlying().(*types.Array); !isArr {
						z.forget(lv)
						z.add(lv, 0, 0)
						z.add(0, lv, 0)
					}
				}
			} else {
				u.forgetPath(z, nm)
			}
		}
	case *ast.DeclStmt:
		if gd, ok := s.Decl.(*ast.GenDecl); ok {
			for _, sp := range gd.Specs {
				u.transfer(z, sp)
			}
		}
	case *ast.ExprStmt:
		u.callEffects(z, s.X)
	case *ast.GoStmt, *ast.DeferStmt, *ast.ReturnStmt, *ast.SendStmt:
	}
}

// callEffects: immediately invoked literals may assign captured variables.
func (u *bgUnit) callEffects(z *zone, e ast.Expr) {
	ast.Inspect(e, func(n ast.Node) bool {
		if lit, ok := n.(*ast.FuncLit); ok {
			ast.Inspect(lit.Body, func(m ast.Node) bool {
				switch s := m.(type) {
				case *ast.AssignStmt:
					for _, l := range s.Lhs {
						u.forgetPath(z, l)
					}
				case *ast.IncDecStmt:
					u.forgetPath(z, s.X)
				}
				return true
			})
			return false
		}
		return true
	})
}

func (u *bgUnit) assign1(z *zone, lhs, rhs ast.Expr, tok token.Token) {
	defer func() {
		if tok == token.ASSIGN || tok == token.DEFINE {
			u.postCall(z, []ast.Expr{lhs}, rhs)
		}
	}()
	u.callEffects(z, rhs)
	lhs = ast.Unparen(lhs)
	// integer variable
	if id, ok := lhs.(*ast.Ident); ok {
		if v, ok := u.intVar(id); ok && v < z.n {
			switch tok {
			case token.ADD_ASSIGN, token.SUB_ASSIGN:
				r := u.linear(rhs)
				if r.ok && r.v == 0 {
					if tok == token.ADD_ASSIGN {
						z.shift(v, r.c)
					} else {
						z.shift(v, -r.c)
					}
				} else {
					z.forget(v)
				}
			case token.ASSIGN, token.DEFINE:
				r := u.linear(rhs)
				if r.ok && r.v < z.n {
					if r.v == v {
						z.shift(v, r.c)
					} else {
						z.assignVar(v, r.v, r.c)
					}
				} else {
					z.forget(v)
					if tv, ok := u.info.Types[rhs]; ok && isUnsigned(tv.Type) {
						z.add(0, v, 0)
					}
				}
			default:
				z.forget(v)
			}
			return
		}
	}
	// slice / string variable or path: track its length
	if lv, ok := u.lenVar(lhs); ok && lv < z.n && tok != token.ADD_ASSIGN {
		r := ast.Unparen(rhs)
		set := func(w int, c int64) {
			if w == lv {
				z.shift(lv, c)
				return
			}
			z.assignVar(lv, w, c)
		}
		switch x := r.(type) {
		case *ast.SliceExpr:
			if x.Slice3 {
				break
			}
			if bv, ok := u.lenVar(x.X); ok && bv < z.n {
				lo := lin{0, 0, true}
				if x.Low != nil {
					lo = u.linear(x.Low)
				}
				if x.High == nil && lo.ok && lo.v == 0 {
					// the root of lhs may be the same as of rhs (vs = vs[1:]): forget other terms rooted there except lv
					u.killOthers(z, lhs, lv)
					set(bv, -lo.c)
					z.add(0, lv, 0)
					return
				}
				if x.High != nil && lo.ok && lo.v == 0 && lo.c == 0 {
					hi := u.linear(x.High)
					if hi.ok && hi.v < z.n {
						u.killOthers(z, lhs, lv)
						set(hi.v, hi.c)
						z.add(0, lv, 0)
						return
					}
				}
			}
		case *ast.Ident, *ast.SelectorExpr:
			if bv, ok := u.lenVar(r.(ast.Expr)); ok && bv < z.n {
				u.killOthers(z, lhs, lv)
				set(bv, 0)
				return
			}
		case *ast.BasicLit:
			if s, ok := constString(u.info, x); ok {
				u.killOthers(z, lhs, lv)
				z.forget(lv)
				z.add(lv, 0, int64(len(s)))
				z.add(0, lv, -int64(len(s)))
				return
			}
		case *ast.CallExpr:
			if id, ok := ast.Unparen(x.Fun).(*ast.Ident); ok && id.Name == "append" && len(x.Args) >= 1 {
				if _, isB := u.info.Uses[id].(*types.Builtin); isB {
					extra := int64(len(x.Args) - 1)
					if x.Ellipsis.IsValid() {
						extra-- // the spread argument contributes >= 0 elements
					}
					if bv, ok := u.lenVar(x.Args[0]); ok {
						// len(new) >= len(base) + extra (exactly, without a spread)
						u.killOthers(z, lhs, lv)
						if !x.Ellipsis.IsValid() {
							set(bv, extra)
						} else if bv == lv {
							// lower bounds survive, upper bounds do not
							for j := 0; j < z.n; j++ {
								if j != lv {
									z.m[lv*z.n+j] = inf
								}
							}
						} else {
							z.forget(lv)
							z.add(bv, lv, -extra)
							z.add(0, lv, 0)
						}
						return
					}
					// base is a literal: append([]string{cmd}, args...)
					if cl, ok := ast.Unparen(x.Args[0]).(*ast.CompositeLit); ok {
						u.killOthers(z, lhs, lv)
						z.forget(lv)
						z.add(0, lv, -(int64(len(cl.Elts)) + extra))
						return
					}
				}
			}
			if id, ok := ast.Unparen(x.Fun).(*ast.Ident); ok && id.Name == "make" && len(x.Args) >= 2 {
				if _, isB := u.info.Uses[id].(*types.Builtin); isB {
					if n := u.linear(x.Args[1]); n.ok {
						u.killOthers(z, lhs, lv)
						set(n.v, n.c)
						z.add(0, lv, 0)
						return
					}
				}
			}
			// conversions string(b), []byte(s) keep the length
			if tv, ok := u.info.Types[x.Fun]; ok && tv.IsType() && len(x.Args) == 1 {
				if at, ok := u.info.Types[x.Args[0]]; ok && u.interesting(at.Type) {
					if bv, ok := u.lenVar(x.Args[0]); ok {
						u.killOthers(z, lhs, lv)
						set(bv, 0)
						return
					}
				}
			}
		case *ast.CompositeLit:
			if _, isSlice := u.info.Types[x].Type.Underlying().(*types.Slice); isSlice {
				allPlain := true
				for _, e := range x.Elts {
					if _, isKV := e.(*ast.KeyValueExpr); isKV {
						allPlain = false
					}
				}
				if allPlain {
					u.killOthers(z, lhs, lv)
					z.forget(lv)
					z.add(lv, 0, int64(len(x.Elts)))
					z.add(0, lv, -int64(len(x.Elts)))
					return
				}
			}
		}
	}
	u.forgetPath(z, lhs)
}

// killOthers: when a path is reassigned, terms about longer paths below it die (not the length term itself).
func (u *bgUnit) killOthers(z *zone, lhs ast.Expr, keep int) {
	k, _, ok := pathKey(u.info, lhs)
	if !ok {
		return
	}
	for key, i := range u.vars {
		if i != keep && i < z.n && strings.HasPrefix(key, "len:"+k+".") {
			z.forget(i)
			z.add(0, i, 0)
		}
	}
}

// ---------------------------------------------------------------------------
// obligations

func (u *bgUnit) interesting(t types.Type) bool {
	switch x := t.Underlying().(type) {
	case *types.Basic:
		return x.Info()&types.IsString != 0
	case *types.Slice:
		switch e := x.Elem().Underlying().(type) {
		case *types.Basic:
			return e.Kind() == types.String || e.Kind() == types.Uint8
		case *types.Slice:
			if b, ok := e.Elem().Underlying().(*types.Basic); ok {
				return b.Kind() == types.Uint8
			}
		}
	case *types.Array:
		return true
	case *types.Pointer:
		if a, ok := x.Elem().Underlying().(*types.Array); ok {
			_ = a
			return true
		}
	}
	return false
}

func (u *bgUnit) lenOf(z *zone, base ast.Expr) (lin, bool) {
	if sl, ok := ast.Unparen(base).(*ast.SliceExpr); ok && sl.Low == nil && sl.High == nil && sl.Max == nil {
		return u.lenOf(z, sl.X) // x[:] has the length of x
	}
	tv, ok := u.info.Types[base]
	if !ok {
		return lin{}, false
	}
	t := tv.Type.Underlying()
	if p, ok := t.(*types.Pointer); ok {
		t = p.Elem().Underlying()
	}
	if arr, ok := t.(*types.Array); ok {
		return lin{0, arr.Len(), true}, true
	}
	if s, ok := constString(u.info, base); ok {
		return lin{0, int64(len(s)), true}, true
	}
	if lv, ok := u.lenVar(base); ok && lv < z.n {
		return lin{lv, 0, true}, true
	}
	return lin{}, false
}

// leq: a <= b entailed?
func (u *bgUnit) leq(z *zone, a, b lin) bool {
	if !a.ok || !b.ok {
		return false
	}
	return z.entails(a.v, b.v, b.c-a.c)
}

// checkExpr walks an expression with short-circuit assumptions and records obligations.
func (u *bgUnit) checkExpr(z *zone, e ast.Node, record bool) {
	if e == nil || z == nil {
		return
	}
	switch x := e.(type) {
	case *ast.FuncLit:
		return
	case *ast.BinaryExpr:
		if x.Op == token.LAND || x.Op == token.LOR {
			u.checkExpr(z, x.X, record)
			z2 := z.clone()
			u.assumeExpr(z2, x.X, x.Op == token.LAND)
			u.checkExpr(z2, x.Y, record)
			return
		}
	case *ast.IndexExpr:
		u.checkExpr(z, x.X, record)
		u.checkExpr(z, x.Index, record)
		tv, ok := u.info.Types[x.X]
		if !ok || !u.interesting(tv.Type) {
			return
		}
		if _, isMap := tv.Type.Underlying().(*types.Map); isMap {
			return
		}
		if record {
			u.obIndex(z, x)
		}
		return
	case *ast.SliceExpr:
		u.checkExpr(z, x.X, record)
		u.checkExpr(z, x.Low, record)
		u.checkExpr(z, x.High, record)
		u.checkExpr(z, x.Max, record)
		tv, ok := u.info.Types[x.X]
		if !ok || !u.interesting(tv.Type) {
			return
		}
		if record {
			u.obSlice(z, x)
		}
		return
	case *ast.CallExpr:
		// immediately invoked literal: analysed with the state at the call
		if lit, ok := ast.Unparen(x.Fun).(*ast.FuncLit); ok {
			for _, a := range x.Args {
				u.checkExpr(z, a, record)
			}
			sub := &bgUnit{c: u.c, fn: u.fn, info: u.info, body: lit.Body, name: u.name + "$lit", vars: u.vars, names: u.names,
				roots: u.roots, isLen: u.isLen, noTrk: u.noTrk}
			sub.run(z.clone(), record)
			u.names = sub.names
			u.obls = append(u.obls, sub.obls...)
			return
		}
	}
	// generic children
	ast.Inspect(e, func(n ast.Node) bool {
		if n == e || n == nil {
			return n == e
		}
		u.checkExpr(z, n, record)
		return false
	})
}

func (u *bgUnit) obIndex(z *zone, x *ast.IndexExpr) {
	ob := &bgOb{node: x, desc: exprStr(x)}
	u.obls = append(u.obls, ob)
	if z.bot {
		ob.ok, ob.why = true, "unreachable"
		return
	}
	ln, okL := u.lenOf(z, x.X)
	idx := u.linear(x.Index)
	tvI := u.info.Types[x.Index]
	if call, ok := ast.Unparen(x.X).(*ast.CallExpr); ok && idx.ok && idx.v == 0 && idx.c == 0 {
		if f := callee(u.info, call); f != nil && f.Pkg() != nil && f.Pkg().Path() == "strings" && (f.Name() == "Split" || f.Name() == "SplitN") {
			ob.ok, ob.why = true, "strings.Split returns at least one element"
			return
		}
	}
	if !idx.ok {
		// sum of two variables: bound one of them by its interval
		if lo, hi, ok := u.linear2(z, x.Index); ok && okL {
			if u.leq(z, lin{hi.v, hi.c + 1, true}, ln) && (isUnsigned(tvI.Type) || u.leq(z, lin{0, 0, true}, lo)) {
				ob.ok, ob.why = true, "index (a sum of two variables, one bounded by its interval) < length and >= 0 entailed"
				return
			}
		}
	}
	// byte-typed index into an array of >= 256 entries
	if okL && ln.v == 0 {
		if b, ok := tvI.Type.Underlying().(*types.Basic); ok && b.Kind() == types.Uint8 && ln.c >= 256 {
			ob.ok, ob.why = true, "byte index into an array of at least 256 entries"
			return
		}
	}
	if !okL {
		ob.why = "length of the indexed value is not tracked"
		return
	}
	if !idx.ok {
		ob.why = "index is not a linear term"
		return
	}
	upper := u.leq(z, lin{idx.v, idx.c + 1, true}, ln)
	lower := isUnsigned(tvI.Type) || u.leq(z, lin{0, 0, true}, idx)
	if upper && lower {
		ob.ok, ob.why = true, "index < length and index >= 0 entailed by the dominating guards"
		return
	}
	switch {
	case !upper && !lower:
		ob.why = "neither index < length nor index >= 0 is entailed"
	case !upper:
		ob.why = "index < length is not entailed by the guards on this path"
	default:
		ob.why = "index >= 0 is not entailed"
	}
}

func (u *bgUnit) obSlice(z *zone, x *ast.SliceExpr) {
	ob := &bgOb{node: x, desc: exprStr(x)}
	u.obls = append(u.obls, ob)
	if z.bot {
		ob.ok, ob.why = true, "unreachable"
		return
	}
	if why, ok := u.bufferTail(x); ok {
		ob.ok, ob.why = true, why
		return
	}
	ln, okL := u.lenOf(z, x.X)
	if x.Low == nil && x.High != nil && !x.Slice3 {
		if tv, ok := u.info.Types[x.High]; ok && tv.Value != nil && tv.Value.String() == "0" {
			ob.ok, ob.why = true, "x[:0] is always within bounds"
			return
		}
	}
	if x.Low == nil && x.High == nil {
		ob.ok, ob.why = true, "x[:] is always within bounds"
		return
	}
	// for slices (not strings/arrays) the upper limit is the capacity; capacity >= length, so proving against the length is sufficient
	if !okL {
		ob.why = "length of the sliced value is not tracked"
		return
	}
	lo := lin{0, 0, true}
	if x.Low != nil {
		lo = u.linear(x.Low)
	}
	hi := ln
	hiLow := ln // a lower term of the high bound (differs from hi for a sum of two variables)
	if x.High != nil {
		hi = u.linear(x.High)
		hiLow = hi
		if !hi.ok {
			// hdr + n with hdr in a known interval: bounded below and above by n + const
			if l2, h2, ok := u.linear2(z, x.High); ok {
				hiLow, hi = l2, h2
			}
		}
	}
	if !lo.ok || !hi.ok {
		ob.why = "slice bound is not a linear term"
		return
	}
	var problems []string
	if x.Low != nil {
		tv := u.info.Types[x.Low]
		if !(isUnsigned(tv.Type) || u.leq(z, lin{0, 0, true}, lo)) {
			problems = append(problems, "low >= 0")
		}
	}
	if !u.leq(z, lo, hiLow) {
		problems = append(problems, "low <= high")
	}
	if x.High != nil && !u.leq(z, hi, ln) {
		// slices may be re-sliced up to their capacity: make([]T, 0, n)[:k] — accept constant capacity idiom only when provable by length
		problems = append(problems, "high <= length")
	}
	if len(problems) == 0 {
		ob.ok, ob.why = true, "0 <= low <= high <= length entailed by the dominating guards"
		return
	}
	ob.why = strings.Join(problems, ", ") + " not entailed"
}

// bufferTail recognises x[len(x)-b.Len():] where b is a local defined once as bytes.NewBuffer(x) that is
// only read afterwards (its uses are b.Len() and conversions to io.Reader) and x is assigned nowhere but
// at its definition and in the statement that takes the tail. Library contract: a bytes.Buffer created over
// x holds len(x) unread bytes, reading only decreases Len(), so 0 <= b.Len() <= len(x).
func (u *bgUnit) bufferTail(x *ast.SliceExpr) (string, bool) {
	if x.High != nil || x.Low == nil {
		return "", false
	}
	xid, ok := ast.Unparen(x.X).(*ast.Ident)
	if !ok {
		return "", false
	}
	xo := u.info.ObjectOf(xid)
	be, ok := ast.Unparen(x.Low).(*ast.BinaryExpr)
	if !ok || be.Op != token.SUB {
		return "", false
	}
	// len(x)
	lc, ok := ast.Unparen(be.X).(*ast.CallExpr)
	if !ok || len(lc.Args) != 1 {
		return "", false
	}
	if fid, ok := ast.Unparen(lc.Fun).(*ast.Ident); !ok || fid.Name != "len" || u.info.Uses[fid] != types.Universe.Lookup("len") {
		return "", false
	}
	if aid, ok := ast.Unparen(lc.Args[0]).(*ast.Ident); !ok || u.info.ObjectOf(aid) != xo {
		return "", false
	}
	// b.Len()
	bc, ok := ast.Unparen(be.Y).(*ast.CallExpr)
	if !ok || len(bc.Args) != 0 {
		return "", false
	}
	bse, ok := ast.Unparen(bc.Fun).(*ast.SelectorExpr)
	if !ok || bse.Sel.Name != "Len" {
		return "", false
	}
	bid, ok := ast.Unparen(bse.X).(*ast.Ident)
	if !ok {
		return "", false
	}
	bo := u.info.ObjectOf(bid)
	if bo == nil || !isNamedType(bo.Type(), "bytes", "Buffer") {
		return "", false
	}
	root := ast.Node(u.fn.Decl.Body)
	// the statement that contains the tail expression
	var host ast.Stmt
	for p := u.c.Parent(x); p != nil; p = u.c.Parent(p) {
		if st, ok := p.(ast.Stmt); ok {
			host = st
			break
		}
	}
	defs, okUses, xAssignsElsewhere := 0, true, false
	ast.Inspect(root, func(n ast.Node) bool {
		switch s := n.(type) {
		case *ast.AssignStmt:
			for i, l := range s.Lhs {
				id, ok := ast.Unparen(l).(*ast.Ident)
				if !ok {
					continue
				}
				switch u.info.ObjectOf(id) {
				case bo:
					defs++
					good := false
					if len(s.Lhs) == len(s.Rhs) {
						if call, ok := ast.Unparen(s.Rhs[i]).(*ast.CallExpr); ok && len(call.Args) == 1 {
							if f := callee(u.info, call); isFunc(f, "bytes", "NewBuffer") {
								if aid, ok := ast.Unparen(call.Args[0]).(*ast.Ident); ok && u.info.ObjectOf(aid) == xo {
									good = true
								}
							}
						}
					}
					if !good {
						okUses = false
					}
				case xo:
					if s.Tok != token.DEFINE && ast.Stmt(s) != host {
						xAssignsElsewhere = true
					}
				}
			}
		case *ast.UnaryExpr:
			if s.Op == token.AND {
				if id, ok := ast.Unparen(s.X).(*ast.Ident); ok && u.info.ObjectOf(id) == xo {
					xAssignsElsewhere = true
				}
			}
		case *ast.Ident:
			if u.info.Uses[s] != bo {
				return true
			}
			switch p := u.c.Parent(s).(type) {
			case *ast.SelectorExpr:
				if p.Sel.Name != "Len" {
					okUses = false
				}
			case *ast.AssignStmt:
				// b on the right-hand side: the target must be an io.Reader
				for i, r := range p.Rhs {
					if ast.Unparen(r) == ast.Expr(s) && i < len(p.Lhs) && len(p.Lhs) == len(p.Rhs) {
						if !isNamedType(u.info.TypeOf(p.Lhs[i]), "io", "Reader") {
							okUses = false
						}
					}
				}
			default:
				okUses = false
			}
		}
		return true
	})
	if defs != 1 || !okUses || xAssignsElsewhere {
		return "", false
	}
	return "library contract: the bytes.Buffer was created over this slice and is only read, so 0 <= Len() <= len(slice)", true
}

// ---------------------------------------------------------------------------
// fixpoint

func (u *bgUnit) prepareVars() {
	// collect variables up front so that zones have a fixed dimension
	ast.Inspect(u.body, func(n ast.Node) bool {
		switch x := n.(type) {
		case *ast.Ident:
			u.intVar(x)
		case *ast.IndexExpr:
			u.lenVar(x.X)
		case *ast.SliceExpr:
			u.lenVar(x.X)
		case *ast.CallExpr:
			if id, ok := ast.Unparen(x.Fun).(*ast.Ident); ok && id.Name == "len" && len(x.Args) == 1 {
				u.lenVar(x.Args[0])
			}
		case *ast.BinaryExpr:
			if tv, ok := u.info.Types[x.X]; ok && isStringType(tv.Type) {
				u.lenVar(x.X)
				u.lenVar(x.Y)
			}
		case *ast.AssignStmt:
			for _, l := range x.Lhs {
				if tv, ok := u.info.Types[l]; ok && u.interesting(tv.Type) {
					u.lenVar(l)
				}
			}
			for _, r := range x.Rhs {
				if tv, ok := u.info.Types[r]; ok && u.interesting(tv.Type) {
					u.lenVar(r)
				}
			}
		}
		return true
	})
}

func (u *bgUnit) top() *zone {
	z := newZone(len(u.names) + 1)
	defer u.entryAssumptionsFor(z, nil)
	for i := range u.isLen {
		if i < z.n {
			z.add(0, i, 0)
		}
	}
	// unsigned integer variables are non-negative
	for i, r := range u.roots {
		if !u.isLen[i] && i < z.n && r != nil && isUnsigned(r.Type()) {
			z.add(0, i, 0)
		}
	}
	return z
}

func (u *bgUnit) grow(z *zone) *zone {
	n := len(u.names) + 1
	if z.n == n {
		return z
	}
	r := newZone(n)
	r.bot = z.bot
	for i := 0; i < z.n; i++ {
		for j := 0; j < z.n; j++ {
			r.m[i*n+j] = z.m[i*z.n+j]
		}
	}
	for i := range u.isLen {
		if i >= z.n && i < n {
			r.add(0, i, 0)
		}
	}
	return r
}

func (u *bgUnit) run(entry *zone, record bool) {
	fg := newFlowGraph(u.info, u.body)
	entry = u.grow(entry)
	in := map[*cfg.Block]*zone{}
	visits := map[*cfg.Block]int{}
	in[fg.G.Blocks[0]] = entry
	wl := []*cfg.Block{fg.G.Blocks[0]}
	// widening only at loop heads: blocks that dominate one of their predecessors
	loopHead := map[*cfg.Block]bool{}
	updates := map[*cfg.Block]int{}
	for _, b := range fg.G.Blocks {
		for _, pi := range fg.preds[b.Index] {
			if fg.BlockDominates(b, fg.G.Blocks[pi]) {
				loopHead[b] = true
			}
		}
	}
	process := func(b *cfg.Block, rec bool) (outs []*zone) {
		z := u.grow(in[b].clone())
		// range loop body: the key is within bounds
		if b.Kind == cfg.KindRangeBody {
			if rs, ok := b.Stmt.(*ast.RangeStmt); ok {
				if key, ok := rs.Key.(*ast.Ident); ok && key.Name != "_" {
					if kv, ok := u.intVar(key); ok && kv < z.n {
						z.forget(kv)
						z.add(0, kv, 0)
						if ln, ok := u.lenOf(z, rs.X); ok {
							z.add(kv, ln.v, ln.c-1)
						}
					}
				}
				if val, ok := rs.Value.(*ast.Ident); ok && val.Name != "_" {
					u.forgetPath(z, val)
				}
			}
		}
		for _, n := range b.Nodes {
			u.checkExpr(z, n, rec)
			if rec && u.siteField != nil {
				u.recordSites(z, n)
			}
			if rec && bgCollect {
				u.collect(z, n)
			}
			u.callKills(z, n)
			u.transfer(z, n)
			z = u.grow(z)
			if bgDebug && rec {
				fmt.Printf("  after %T@%d in block %d: ", n, u.c.Fset.Position(n.Pos()).Line, b.Index)
				for i := 0; i < z.n; i++ {
					if z.m[0*z.n+i] < inf && z.m[0*z.n+i] != 0 {
						fmt.Printf(" 0-v%d<=%d", i, z.m[i])
					}
					if z.m[i*z.n+0] < inf {
						fmt.Printf(" v%d<=%d", i, z.m[i*z.n])
					}
				}
				fmt.Println()
			}
		}
		outs = make([]*zone, len(b.Succs))
		for si := range b.Succs {
			o := z.clone()
			if len(b.Succs) == 2 && len(b.Nodes) > 0 {
				if cond, ok := b.Nodes[len(b.Nodes)-1].(ast.Expr); ok {
					_, tag := fg.condOf(b)
					if tag != nil {
						// switch tag == case expression
						op := token.EQL
						if si == 1 {
							op = token.NEQ
						}
						if tv, ok := u.info.Types[tag]; ok && isStringType(tv.Type) {
							if s, ok := constString(u.info, cond); ok {
								if lv, ok := u.lenVar(tag); ok && lv < o.n && si == 0 {
									o.add(lv, 0, int64(len(s)))
									o.add(0, lv, -int64(len(s)))
								}
							}
						} else {
							u.assumeCmp(o, u.linear(tag), op, u.linear(cond))
						}
					} else {
						u.assumeExpr(o, cond, si == 0)
					}
				}
			}
			outs[si] = o
		}
		return
	}
	for len(wl) > 0 {
		b := wl[len(wl)-1]
		wl = wl[:len(wl)-1]
		visits[b]++
		outs := process(b, false)
		for si, s := range b.Succs {
			o := outs[si]
			old, ok := in[s]
			var nz *zone
			if !ok {
				nz = o
			} else {
				old = u.grow(old)
				o = u.grow(o)
				j := old.join(o)
				if loopHead[s] {
					updates[s]++
					if updates[s] > 3 {
						j = old.widen(j)
					}
				}
				nz = j
				if nz.equal(old) {
					in[s] = old
					continue
				}
			}
			in[s] = nz
			wl = append(wl, s)
		}
	}
	if bgDebug {
		for _, b := range fg.G.Blocks {
			if z := in[b]; z != nil {
				fmt.Printf("block %d %s bot=%v:", b.Index, b.Kind, z.bot)
				for i := 0; i < z.n; i++ {
					for j := 0; j < z.n; j++ {
						if i != j && z.m[i*z.n+j] < inf {
							fmt.Printf(" v%d-v%d<=%d", i, j, z.m[i*z.n+j])
						}
					}
				}
				fmt.Println()
			}
		}
	}
	if record {
		// final pass: record obligations with the fixpoint states
		blocks := append([]*cfg.Block(nil), fg.G.Blocks...)
		sort.Slice(blocks, func(i, j int) bool { return blocks[i].Index < blocks[j].Index })
		for _, b := range blocks {
			if in[b] == nil {
				continue
			}
			process(b, true)
		}
	}
}

// ---------------------------------------------------------------------------
// field-modification summaries: which fields does a tile38 function assign
// through its pointer parameters / receiver (transitively)?

var modSummary = map[*types.Func]map[string]bool{}

func (c *Ctx) modifiedFields(f *types.Func, depth int) map[string]bool {
	if m, ok := modSummary[f]; ok {
		return m
	}
	m := map[string]bool{}
	modSummary[f] = m
	fi := c.FuncOf(f)
	if fi == nil || depth > 4 {
		return m
	}
	info := fi.Info()
	ptrParams := map[types.Object]bool{}
	addParams := func(fl *ast.FieldList) {
		if fl == nil {
			return
		}
		for _, p := range fl.List {
			for _, n := range p.Names {
				if o := info.ObjectOf(n); o != nil {
					if _, ok := o.Type().Underlying().(*types.Pointer); ok {
						ptrParams[o] = true
					}
				}
			}
		}
	}
	addParams(fi.Decl.Recv)
	addParams(fi.Decl.Type.Params)
	ast.Inspect(fi.Decl.Body, func(n ast.Node) bool {
		switch s := n.(type) {
		case *ast.AssignStmt:
			for _, l := range s.Lhs {
				if se, ok := ast.Unparen(l).(*ast.SelectorExpr); ok {
					if id, ok := ast.Unparen(se.X).(*ast.Ident); ok && ptrParams[info.ObjectOf(id)] {
						m[se.Sel.Name] = true
					}
				}
				if ix, ok := ast.Unparen(l).(*ast.IndexExpr); ok {
					_ = ix // element stores do not change lengths
				}
			}
		case *ast.CallExpr:
			g := callee(info, s)
			if g == nil || g == f {
				return true
			}
			passes := false
			for _, a := range s.Args {
				if id, ok := ast.Unparen(a).(*ast.Ident); ok && ptrParams[info.ObjectOf(id)] {
					passes = true
				}
			}
			if se, ok := ast.Unparen(s.Fun).(*ast.SelectorExpr); ok {
				if id, ok := ast.Unparen(se.X).(*ast.Ident); ok && ptrParams[info.ObjectOf(id)] {
					passes = true
				}
			}
			if passes {
				for k := range c.modifiedFields(g, depth+1) {
					m[k] = true
				}
			}
		}
		return true
	})
	return m
}

// callKills: a call may reassign fields reachable through pointer arguments.
func (u *bgUnit) callKills(z *zone, n ast.Node) {
	ast.Inspect(n, func(x ast.Node) bool {
		if _, ok := x.(*ast.FuncLit); ok {
			return false
		}
		call, ok := x.(*ast.CallExpr)
		if !ok {
			return true
		}
		g := callee(u.info, call)
		if g == nil {
			return true
		}
		fields := u.c.modifiedFields(g, 0)
		if len(fields) == 0 {
			return true
		}
		var roots []ast.Expr
		for _, a := range call.Args {
			a = ast.Unparen(a)
			if ue, ok := a.(*ast.UnaryExpr); ok && ue.Op == token.AND {
				a = ue.X
			}
			roots = append(roots, a)
		}
		if se, ok := ast.Unparen(call.Fun).(*ast.SelectorExpr); ok {
			roots = append(roots, se.X)
		}
		for _, r := range roots {
			k, _, ok := pathKey(u.info, r)
			if !ok {
				continue
			}
			for f := range fields {
				for key, i := range u.vars {
					if i < z.n && strings.HasPrefix(key, "len:"+k+"."+f) {
						z.forget(i)
						z.add(0, i, 0)
					}
				}
			}
			// type invariants hold again after the callee returns (construction sites are checked)
			if _, root, ok := pathKey(u.info, r); ok {
				u.entryAssumptionsFor(z, root)
			}
		}
		return true
	})
}

// postCall: post-conditions of library calls whose result bounds a length.
func (u *bgUnit) postCall(z *zone, lhs []ast.Expr, rhs ast.Expr) {
	call, ok := ast.Unparen(rhs).(*ast.CallExpr)
	if !ok || z.bot {
		return
	}
	f := callee(u.info, call)
	if f == nil {
		return
	}
	resVar := func(i int) (int, bool) {
		if i >= len(lhs) {
			return 0, false
		}
		id, ok := ast.Unparen(lhs[i]).(*ast.Ident)
		if !ok || id.Name == "_" {
			return 0, false
		}
		return u.intVar(id)
	}
	pkg := ""
	if f.Pkg() != nil {
		pkg = f.Pkg().Path()
	}
	if sm := bgRetSummary[f]; sm != nil && !bgCollect && sm.n > 0 {
		if r, ok := resVar(0); ok {
			if sm.hasLo && sm.lo < inf {
				z.add(0, r, -sm.lo)
			}
			for j, c := range sm.rel {
				if j < len(call.Args) {
					if ln, ok := u.lenOf(z, call.Args[j]); ok {
						z.add(r, ln.v, c+ln.c)
					}
				}
			}
		}
		return
	}
	switch {
	case f.Name() == "Read" && len(call.Args) == 1 && len(lhs) == 2:
		// io.Reader contract: 0 <= n <= len(p)
		if isByteSlice(u.info.Types[call.Args[0]].Type) {
			if n, ok := resVar(0); ok {
				z.add(0, n, 0)
				if ln, ok := u.lenOf(z, call.Args[0]); ok {
					z.add(n, ln.v, ln.c)
				}
			}
		}
	case (pkg == "strings" || pkg == "bytes") && (f.Name() == "Index" || f.Name() == "IndexByte" || f.Name() == "IndexRune" || f.Name() == "LastIndex" || f.Name() == "LastIndexByte" || f.Name() == "IndexAny") && len(call.Args) == 2:
		// -1 <= i <= len(s)-1; with a separator of constant length k (Index, LastIndex): i == -1 or
		// i <= len(s)-k, and both give i - len(s) <= -k once len(s) >= k-1 is known
		if i, ok := resVar(0); ok {
			z.add(0, i, 1)
			if ln, ok := u.lenOf(z, call.Args[0]); ok {
				z.add(i, ln.v, ln.c-1)
				if f.Name() == "Index" || f.Name() == "LastIndex" {
					if k, ok := constLen(u.info, call.Args[1]); ok && k >= 1 && z.entails(0, ln.v, ln.c-(k-1)) {
						z.add(i, ln.v, ln.c-k)
					}
				}
			}
		}
	case pkg == "unicode/utf8" && (f.Name() == "DecodeRuneInString" || f.Name() == "DecodeRune" || f.Name() == "DecodeLastRuneInString") && len(call.Args) == 1 && len(lhs) == 2:
		// 0 <= n <= len(s)
		if n, ok := resVar(1); ok {
			z.add(0, n, 0)
			if ln, ok := u.lenOf(z, call.Args[0]); ok {
				z.add(n, ln.v, ln.c)
			}
		}
	case pkg == "strings" && (f.Name() == "Split" || f.Name() == "SplitN") && len(lhs) == 1:
		if lv, ok := u.lenVar(lhs[0]); ok {
			z.add(0, lv, -1)
		}
	case pkg == "strings" && (f.Name() == "ToLower" || f.Name() == "ToUpper") && len(lhs) == 1 && len(call.Args) == 1:
		// ASCII-preserving for non-empty/empty: len(result) == 0 iff len(arg) == 0 (lengths can differ for non-ASCII); keep emptiness only
		if lv, ok := u.lenVar(lhs[0]); ok {
			if av, ok := u.lenVar(call.Args[0]); ok && z.entails(0, av, -1) {
				z.add(0, lv, -1)
			}
		}
	case pkg == "strings" && f.Name() == "TrimSpace":
	}
}

// constLen: the length of a constant string or of []byte("constant").
func constLen(info *types.Info, e ast.Expr) (int64, bool) {
	e = ast.Unparen(e)
	if v, ok := constString(info, e); ok {
		return int64(len(v)), true
	}
	if call, ok := e.(*ast.CallExpr); ok && len(call.Args) == 1 {
		if tv, ok := info.Types[call.Fun]; ok && tv.IsType() && isByteSlice(tv.Type) {
			if v, ok := constString(info, call.Args[0]); ok {
				return int64(len(v)), true
			}
		}
	}
	return 0, false
}

func isByteSlice(t types.Type) bool {
	if t == nil {
		return false
	}
	s, ok := t.Underlying().(*types.Slice)
	if !ok {
		return false
	}
	b, ok := s.Elem().Underlying().(*types.Basic)
	return ok && b.Kind() == types.Uint8
}

// linear2: e = v1 + v2 + c where v2 has a known interval [l,h] relative to zero:
// returns a lower term (v1 + c + l) and an upper term (v1 + c + h).
func (u *bgUnit) linear2(z *zone, e ast.Expr) (lo, hi lin, ok bool) {
	var vars []int
	var c int64
	var walk func(e ast.Expr, sign int64) bool
	walk = func(e ast.Expr, sign int64) bool {
		e = ast.Unparen(e)
		if be, isBin := e.(*ast.BinaryExpr); isBin && (be.Op == token.ADD || be.Op == token.SUB) {
			if !walk(be.X, sign) {
				return false
			}
			s2 := sign
			if be.Op == token.SUB {
				s2 = -sign
			}
			return walk(be.Y, s2)
		}
		l := u.linear(e)
		if !l.ok {
			return false
		}
		if l.v != 0 {
			if sign < 0 {
				return false
			}
			vars = append(vars, l.v)
		}
		c += sign * l.c
		return true
	}
	if !walk(e, 1) || len(vars) != 2 {
		return lin{}, lin{}, false
	}
	for k := 0; k < 2; k++ {
		a, b := vars[k], vars[1-k]
		if b >= z.n {
			continue
		}
		h, l := z.get(b, 0), z.get(0, b) // b <= h ; -b <= l  → b >= -l
		if h < inf && l < inf {
			return lin{a, c - l, true}, lin{a, c + h, true}, true
		}
	}
	return lin{}, lin{}, false
}

// fieldLenInvariant: struct fields whose length is the same for every value
// that can exist (verified by ruleBounds: every composite literal of the
// struct sets the field to an N-element literal, and every store assigns an
// N-element literal).
var fieldLenInvariant = map[string]int64{}

// msgNonEmpty: *Message values have at least one argument (verified at the construction sites).
func (u *bgUnit) entryAssumptionsFor(z *zone, only types.Object) {
	// preconditions established at every static call site (first pass), for functions that are only ever called
	if only == nil && !bgCollect && u.body == u.fn.Decl.Body && bgOnlyCalled[u.fn.Obj] {
		if m := bgCallLower[u.fn.Obj]; m != nil && bgCallSites[u.fn.Obj] > 0 {
			idx := 0
			for _, p := range u.fn.Decl.Type.Params.List {
				for _, nm := range p.Names {
					if lb, ok := m[idx]; ok && lb > 0 {
						if lv, ok := u.lenVar(nm); ok {
							z.add(0, lv, -lb)
						}
					}
					idx++
				}
			}
		}
	}
	for key, i := range u.vars {
		if !strings.HasPrefix(key, "len:") {
			continue
		}
		root := u.roots[i]
		if root == nil || (only != nil && root != only) {
			continue
		}
		rest := key[len("len:"):]
		// <msg>.Args where msg is a *Message
		if !bgNoMsgAssume && strings.HasSuffix(rest, ".Args") && strings.Count(rest, ".") == 1 && isNamedType(root.Type(), modPath+"/internal/server", "Message") {
			z.add(0, i, -1)
		}
		// field invariants: <x>.<Field> with x of the struct type
		if j := strings.LastIndexByte(rest, '.'); j >= 0 && strings.Count(rest, ".") == 1 {
			if n := namedOf(root.Type()); n != nil {
				k := n.Obj().Pkg().Path() + "." + n.Obj().Name() + "." + rest[j+1:]
				if ln, ok := fieldLenInvariant[k]; ok {
					z.add(i, 0, ln)
					z.add(0, i, -ln)
				}
			}
		}
	}
}

// collect (first pass): return bounds of this function and lower bounds of slice/string arguments at call sites.
func (u *bgUnit) collect(z *zone, n ast.Node) {
	if z.bot {
		return
	}
	if r, ok := n.(*ast.ReturnStmt); ok && u.body == u.fn.Decl.Body && len(r.Results) >= 1 {
		sig := u.fn.Obj.Type().(*types.Signature)
		if sig.Results().Len() >= 1 && isIntType(sig.Results().At(0).Type()) && len(r.Results) == sig.Results().Len() {
			l := u.linear(r.Results[0])
			sm := bgRetSummary[u.fn.Obj]
			first := sm == nil
			if first {
				sm = &intSummary{hasLo: true, lo: inf, rel: map[int]int64{}}
				bgRetSummary[u.fn.Obj] = sm
			}
			sm.n++
			if !l.ok {
				sm.hasLo = false
				sm.rel = map[int]int64{}
				sm.lo = -inf
				return
			}
			// lower bound: l >= -(bound of 0 - l)
			lb := z.get(0, l.v)
			if l.v == 0 {
				lb = 0
			}
			if lb >= inf {
				sm.hasLo = false
			} else if v := -lb + l.c; v < sm.lo {
				sm.lo = v
			}
			// relation to len(param j)
			idx := 0
			rel := map[int]int64{}
			for _, p := range u.fn.Decl.Type.Params.List {
				for _, nm := range p.Names {
					if tv := u.info.ObjectOf(nm); tv != nil && u.interesting(tv.Type()) {
						if lv, ok := u.lenVar(nm); ok && lv < z.n && l.v < z.n {
							if bnd := z.get(l.v, lv); bnd < inf {
								rel[idx] = bnd + l.c
							} else if l.v == 0 {
								// constant result c: c - len <= c (len >= 0)
								rel[idx] = l.c
							}
						}
					}
					idx++
				}
			}
			if first {
				sm.rel = rel
			} else {
				for j, c := range sm.rel {
					if c2, ok := rel[j]; !ok {
						delete(sm.rel, j)
					} else if c2 > c {
						sm.rel[j] = c2
					}
				}
			}
		}
	}
	ast.Inspect(n, func(x ast.Node) bool {
		if _, isLit := x.(*ast.FuncLit); isLit {
			return false
		}
		call, ok := x.(*ast.CallExpr)
		if !ok {
			return true
		}
		f := callee(u.info, call)
		if f == nil || u.c.FuncOf(f) == nil {
			return true
		}
		bgCallSites[f]++
		m := bgCallLower[f]
		if m == nil {
			m = map[int]int64{}
			bgCallLower[f] = m
		}
		for i, a := range call.Args {
			tv, ok := u.info.Types[a]
			if !ok || !u.interesting(tv.Type) {
				continue
			}
			lb := int64(0)
			if ln, ok := u.lenOf(z, a); ok {
				if ln.v == 0 {
					lb = ln.c
				} else if ln.v < z.n {
					if b := z.get(0, ln.v); b < inf {
						lb = -b + ln.c
					}
				}
			}
			if old, ok := m[i]; !ok || lb < old {
				m[i] = lb
			}
		}
		return true
	})
}

// recordSites: stores to the site field and composite literals of its struct, with the lower bound of the assigned length.
func (u *bgUnit) recordSites(z *zone, n ast.Node) {
	if z.bot {
		return
	}
	ast.Inspect(n, func(x ast.Node) bool {
		if _, isLit := x.(*ast.FuncLit); isLit {
			return false
		}
		switch s := x.(type) {
		case *ast.AssignStmt:
			for i, l := range s.Lhs {
				if selField(u.info, l) == u.siteField && i < len(s.Rhs) && len(s.Lhs) == len(s.Rhs) {
					u.sites = append(u.sites, msgSite{key: exprStr(l) + " = " + exprStr(s.Rhs[i]), node: s, lower: u.lenLower(z, s.Rhs[i])})
				}
			}
		case *ast.CompositeLit:
			tv, ok := u.info.Types[s]
			if !ok {
				return true
			}
			st, isStruct := tv.Type.Underlying().(*types.Struct)
			if !isStruct {
				return true
			}
			owns := false
			for i := 0; i < st.NumFields(); i++ {
				if st.Field(i) == u.siteField {
					owns = true
				}
			}
			if !owns {
				return true
			}
			for _, e := range s.Elts {
				if kv, isKV := e.(*ast.KeyValueExpr); isKV {
					if id, isId := kv.Key.(*ast.Ident); isId && id.Name == u.siteField.Name() {
						u.sites = append(u.sites, msgSite{key: "Message{Args: " + exprStr(kv.Value) + "}", node: s, lower: u.lenLower(z, kv.Value)})
					}
				}
			}
			// a literal without Args is an empty message that is filled later: its fills are stores (recorded above)
		}
		return true
	})
}
