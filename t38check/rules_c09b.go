package main

import (
	"go/ast"
	"go/token"
	"go/types"
	"strings"
)

// R9.replay-tolerates-later-state
//
// While AOFSHRINK rewrites the log, the snapshot it writes is taken piecemeal and later than some of the
// commands it then appends (the capture log): a captured command is re-executed at start-up on a state
// that may already contain its own effect and the effect of commands that came after it. The loader
// therefore has to survive every refusal a write handler can issue *because of the state it finds* — the
// repository says so itself (commandErrIsFatal: "these errors may occur … due to the aof rewrite
// operation") and tolerates two sentinels. The rule compares the two sets: the sentinel errors a write
// handler returns under a condition that depends on the stored state, and the sentinels the loader
// tolerates. A refusal outside the tolerated set makes the rewritten log unloadable: the server does not
// start.

func init() {
	register(&Rule{ID: "R9.replay-tolerates-later-state", Props: []string{"C09"}, Floor: 6,
		Text: "a command captured during AOFSHRINK is re-executed at start-up on a snapshot that was taken later than the command ran, so it may meet a state in which its own effect and the effects of later commands are already present: every sentinel error that a write handler returns under a condition that depends on the stored state (a taint analysis from the reads of the guarded registries, through locals and iteration callbacks, to the branch conditions that dominate the return; returns in arms of the output-format switch that the loader's zero Message cannot take are left out) is one of the errors the loader tolerates (the sentinels commandErrIsFatal compares its argument with) — any other state-dependent refusal stops the loader with a fatal error and the rewritten log cannot be loaded",
		Run:  ruleReplayToleratesLaterState})
}

func ruleReplayToleratesLaterState(c *Ctx) {
	hs := writeHandlers(c)
	if hs == nil {
		c.und("engine", 0, "command tables not available")
		return
	}
	fatal := c.Func("internal/server", "", "commandErrIsFatal")
	if fatal == nil || fatal.Decl.Body == nil {
		c.und("anchors", 0, "commandErrIsFatal not found")
		return
	}
	// tolerated(S): the predicate, evaluated as a decision table with "the argument is the sentinel S" fixed
	// (comparisons of the parameter with a package-level variable, errors.Is, a tagged switch on the
	// parameter), returns false on every leaf
	var fparam types.Object
	if ps := fatal.Decl.Type.Params.List; len(ps) == 1 && len(ps[0].Names) == 1 {
		fparam = fatal.Info().ObjectOf(ps[0].Names[0])
	}
	if fparam == nil {
		c.und("tolerated", fatal.Decl.Pos(), "commandErrIsFatal is expected to take one named parameter")
		return
	}
	toleratedMemo := map[string]string{}
	toleratedWhy := func(sent string) string { // "" = tolerated, otherwise why not
		if w, ok := toleratedMemo[sent]; ok {
			return w
		}
		t := &DTable{c: c, fn: fatal, info: fatal.Info()}
		t.Bind = func(r *dtRun, e ast.Expr, sym string) (dtVal, bool) {
			if id, ok := e.(*ast.Ident); ok && fatal.Info().ObjectOf(id) == fparam {
				return dtVal{sym: "ERR"}, true
			}
			return dtVal{}, false
		}
		t.Fix = func(name string) (bool, bool) {
			name = strings.ReplaceAll(name, "‹error›", "ERR")
			for _, pat := range []struct {
				pre, suf string
				neg      bool
			}{{"ERR == ", "", false}, {"", " == ERR", false}, {"ERR != ", "", true}, {"", " != ERR", true}, {"Is(ERR, ", ")", false}, {"errors.Is(ERR, ", ")", false}} {
				if strings.HasPrefix(name, pat.pre) && strings.HasSuffix(name, pat.suf) && len(name) > len(pat.pre)+len(pat.suf) {
					mid := name[len(pat.pre) : len(name)-len(pat.suf)]
					if isIdentName(mid) {
						return (mid == sent) != pat.neg, true
					}
				}
			}
			return false, false
		}
		why := ""
		leaves := t.Run()
		for _, lf := range leaves {
			switch {
			case lf.Undecided != "":
				why = "undecided: " + lf.Undecided
			case len(lf.Ret) != 1 || lf.Ret[0].k != dtBool:
				why = "the predicate's answer is not a constant for this error [" + lf.atomsStr() + "]"
			case lf.Ret[0].b:
				why = "fatal"
			}
			if why != "" {
				break
			}
		}
		if len(leaves) == 0 {
			why = "undecided: no leaf"
		}
		toleratedMemo[sent] = why
		return why
	}
	guarded := c.muData().guarded
	nState, nSent := 0, 0
	nTol := map[string]bool{}
	for _, h := range hs {
		fi := c.FuncOf(h)
		if fi == nil || fi.Decl.Body == nil {
			continue
		}
		info := fi.Info()
		// taint: locals that hold something read from the guarded registries
		taint := map[types.Object]bool{}
		var isState func(e ast.Node) bool
		isState = func(e ast.Node) bool {
			hit := false
			ast.Inspect(e, func(n ast.Node) bool {
				if hit {
					return false
				}
				switch x := n.(type) {
				case *ast.FuncLit:
					return false
				case *ast.SelectorExpr:
					if fv := selField(info, x); fv != nil && guarded[fv] != "" {
						hit = true
					}
				case *ast.Ident:
					if taint[info.ObjectOf(x)] {
						hit = true
					}
				}
				return true
			})
			return hit
		}
		mark := func(l ast.Expr) bool {
			id, ok := ast.Unparen(l).(*ast.Ident)
			if !ok {
				return false
			}
			o := info.ObjectOf(id)
			if o == nil || taint[o] {
				return false
			}
			if _, isVar := o.(*types.Var); !isVar {
				return false
			}
			taint[o] = true
			return true
		}
		for changed := true; changed; {
			changed = false
			ast.Inspect(fi.Decl.Body, func(n ast.Node) bool {
				switch x := n.(type) {
				case *ast.AssignStmt:
					st := false
					for _, r := range x.Rhs {
						if isState(r) {
							st = true
						}
					}
					if st {
						for _, l := range x.Lhs {
							if mark(l) {
								changed = true
							}
						}
					}
				case *ast.ValueSpec:
					st := false
					for _, r := range x.Values {
						if isState(r) {
							st = true
						}
					}
					if st {
						for _, nm := range x.Names {
							if mark(nm) {
								changed = true
							}
						}
					}
				case *ast.RangeStmt:
					if isState(x.X) {
						if x.Key != nil && mark(x.Key) {
							changed = true
						}
						if x.Value != nil && mark(x.Value) {
							changed = true
						}
					}
				case *ast.CallExpr:
					// an iteration over stored state with a callback: what the callback receives and what it
					// assigns depend on the state
					if !isState(x.Fun) {
						for _, a := range x.Args {
							if _, isLit := a.(*ast.FuncLit); !isLit && isState(a) {
								goto iter
							}
						}
						return true
					}
				iter:
					for _, a := range x.Args {
						lit, ok := a.(*ast.FuncLit)
						if !ok {
							continue
						}
						for _, fld := range lit.Type.Params.List {
							for _, nm := range fld.Names {
								if mark(nm) {
									changed = true
								}
							}
						}
						ast.Inspect(lit.Body, func(m ast.Node) bool {
							if as, ok := m.(*ast.AssignStmt); ok {
								for _, l := range as.Lhs {
									if mark(l) {
										changed = true
									}
								}
							}
							return true
						})
					}
				}
				return true
			})
		}
		fg := newFlowGraph(info, fi.Decl.Body)
		for _, rl := range fg.Returns() {
			r := rl.Node.(*ast.ReturnStmt)
			if !returnsError(info, fi, r) {
				continue
			}
			eexpr := returnedErrorExpr(info, r)
			if eexpr == nil {
				continue
			}
			sent := pkgLevelVar(info, eexpr)
			inlineErr := ""
			if sent == nil {
				// an error made on the spot (errors.New, fmt.Errorf) equals no sentinel: never tolerated
				if call, ok := ast.Unparen(eexpr).(*ast.CallExpr); ok {
					if f := callee(info, call); f != nil && f.Pkg() != nil && (f.Pkg().Path() == "errors" && f.Name() == "New" || f.Pkg().Path() == "fmt" && f.Name() == "Errorf") {
						inlineErr = exprStr(call)
						if len(call.Args) > 0 {
							if sv, ok := constString(info, call.Args[0]); ok {
								inlineErr = f.Name() + "(" + strconvQuote(sv) + ")"
							}
						}
					}
				}
				if inlineErr == "" {
					continue // an error computed elsewhere (a library's, the parser's): not decided
				}
			}
			nSent++
			// does a condition that dominates the return depend on the state? can the loader take it?
			dep := ""
			loaderCannot := false
			for _, f := range fg.DominatingFacts(rl) {
				if f.Tag != nil {
					if strings.HasSuffix(exprStr(f.Tag), ".OutputType") && !f.Neg {
						// case JSON / case RESP of the reply switch: the loader's Message has neither
						if tv, ok := info.Types[f.E]; ok && tv.Value != nil && tv.Value.String() != "0" {
							loaderCannot = true
						}
					}
					if isState(f.Tag) && dep == "" {
						dep = exprStr(f.Tag)
					}
					continue
				}
				if be, ok := ast.Unparen(f.E).(*ast.BinaryExpr); ok && !f.Neg && be.Op == token.EQL && strings.HasSuffix(exprStr(be.X), ".OutputType") {
					if tv, ok := info.Types[be.Y]; ok && tv.Value != nil && tv.Value.String() != "0" {
						loaderCannot = true
					}
				}
				if isState(f.E) && dep == "" {
					dep = exprStr(f.E)
				}
			}
			if dep == "" || loaderCannot {
				continue
			}
			nState++
			if sent == nil {
				key := funcName(h) + "→" + inlineErr
				c.bad(key, r.Pos(), "the handler refuses with the error %s depending on the stored state (%s); an error made on the spot equals none of the sentinels the loader tolerates, so it is fatal: a command captured while AOFSHRINK runs is replayed on a later snapshot, where this refusal can occur although the command succeeded when it ran — the rewritten log then cannot be loaded and the server does not start", inlineErr, dep)
				continue
			}
			key := funcName(h) + "→" + sent.Name()
			why := toleratedWhy(sent.Name())
			if strings.HasPrefix(why, "undecided") {
				c.und(key, r.Pos(), "commandErrIsFatal(%s): %s", sent.Name(), why)
				continue
			}
			if why == "" {
				nTol[sent.Name()] = true
			}
			c.check(why == "", key, r.Pos(), "a refusal that depends on the stored state ("+dep+") is one the loader tolerates",
				"the handler refuses with "+sent.Name()+" depending on the stored state ("+dep+"), and the loader treats that error as fatal: a command captured while AOFSHRINK runs is replayed on a later snapshot, where this refusal can occur although the command succeeded when it ran — the rewritten log then cannot be loaded and the server does not start")
		}
	}
	if len(nTol) == 0 {
		c.und("tolerated", fatal.Decl.Pos(), "no state-dependent refusal is tolerated by commandErrIsFatal: the predicate or the handlers are not read correctly")
	}
	c.stat("tolerated_sentinels", len(nTol))
	c.stat("sentinel_error_returns_in_write_handlers", nSent)
	c.stat("state_dependent_refusals", nState)
}

// pkgLevelVar: e names a package-level variable.
func pkgLevelVar(info *types.Info, e ast.Expr) types.Object {
	var id *ast.Ident
	switch x := ast.Unparen(e).(type) {
	case *ast.Ident:
		id = x
	case *ast.SelectorExpr:
		id = x.Sel
	}
	if id == nil {
		return nil
	}
	v, ok := info.ObjectOf(id).(*types.Var)
	if !ok || v.IsField() || v.Pkg() == nil || v.Parent() != v.Pkg().Scope() {
		return nil
	}
	return v
}

// returnedErrorExpr: the expression of the error a return statement hands back, looking through the
// one-argument wrappers (retwerr(err)).
func returnedErrorExpr(info *types.Info, r *ast.ReturnStmt) ast.Expr {
	if len(r.Results) == 0 {
		return nil
	}
	last := r.Results[len(r.Results)-1]
	if call, ok := ast.Unparen(last).(*ast.CallExpr); ok && len(r.Results) == 1 {
		if f := callee(info, call); f != nil {
			sig := f.Type().(*types.Signature)
			if sig.Params().Len() == 1 && isErrorType(sig.Params().At(0).Type()) && len(call.Args) == 1 {
				return call.Args[0]
			}
		}
		return nil
	}
	return last
}

func isIdentName(s string) bool {
	if s == "" {
		return false
	}
	for i, r := range s {
		if !(r == '_' || r >= 'a' && r <= 'z' || r >= 'A' && r <= 'Z' || i > 0 && r >= '0' && r <= '9') {
			return false
		}
	}
	return true
}

func strconvQuote(s string) string {
	if len(s) > 60 {
		s = s[:60] + "…"
	}
	return "\"" + s + "\""
}
