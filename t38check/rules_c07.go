package main

import (
	"fmt"
	"go/ast"
	"go/token"
	"go/types"
	"sort"
	"strings"
)

func init() {
	register(&Rule{ID: "R7.ct-join", Props: []string{"C07", "C03", "C15", "C18"}, Floor: 3,
		Text: "the lock table (the Command() switch of handleInputCommand whose arms lock Server.mu) and the dispatch table (the Command() switch of command) are found and every arm is interpretable: one acquire matched by its deferred release; the re-dispatch of 'config'/'script' is the only self call of command",
		Run:  ruleCTJoin})
	register(&Rule{ID: "R7.lock-write", Props: []string{"C07", "C10"}, Floor: 40,
		Text: "every write of a Server.mu-guarded location (cols, collections, hook registries, group indexes, aof, aofbuf, aofsz, shrinking, shrinklog, qidx) executes with Server.mu held exclusively on every path from every root (go statements, Serve, escaping function values) through the restricted call model with the command-table join",
		Run:  func(c *Ctx) { ruleLockAccess(c, true) }})
	register(&Rule{ID: "R7.lock-read", Props: []string{"C07"}, Floor: 60,
		Text: "every read of a Server.mu-guarded location executes with Server.mu held at least shared",
		Run:  func(c *Ctx) { ruleLockAccess(c, false) }})
	register(&Rule{ID: "R7.balance", Props: []string{"C07", "C18"}, Floor: 20,
		Text: "lock pairing for Server.mu: every function returns in the lock state it was entered in, never acquires while holding, never releases what is not held",
		Run:  ruleBalance})
	register(&Rule{ID: "R7.handlers-lock-neutral", Props: []string{"C07", "C18"}, Floor: 20,
		Text: "no function entered with Server.mu held releases the caller's lock (multi-object commands and scripts hold it from first effect to writeAOF); reviewed exception: cmdFollow",
		Run:  ruleLockNeutral})
	register(&Rule{ID: "R7.startup-gate", Props: []string{"C07"}, Floor: 3,
		Text: "licence for analysing Serve's start-up phase as exclusive: loadAOF is called before loadedAndReady.Store(true), and in handleInputCommand the !loadedAndReady gate dominates the lock switch with a bypass set within {output, ping, echo, auth}",
		Run:  ruleStartupGate})
}

func ruleCTJoin(c *Ctx) {
	ct := c.CT()
	if ct.Err != "" {
		c.und("tables", 0, "%s", ct.Err)
		return
	}
	c.stat("lock_table_arms", len(ct.LT.Clauses))
	c.stat("dispatch_table_arms", len(ct.DT.Clauses))
	for _, cl := range ct.LT.Clauses {
		lc := ct.LTClass[cl]
		name := "default"
		if !cl.IsDefault {
			name = strings.Join(cl.Strings, ",")
		}
		if lc.Problem != "" {
			c.bad("lock-arm/"+name, cl.Clause.Pos(), "lock arm not well-formed: %s", lc.Problem)
		} else {
			c.ok("lock-arm/"+name, cl.Clause.Pos(), true, "dispatches in state %s write=%v gates=%v", lockStr(lc.Lock), lc.Write, keys(lc.Gates))
		}
	}
	// redispatch: self calls of command only in the arm of the first words of spaced keys
	prefixes := map[string]bool{}
	for _, cl := range ct.DT.Clauses {
		for _, s := range cl.Strings {
			if i := strings.IndexByte(s, ' '); i >= 0 {
				prefixes[s[:i]] = true
			}
		}
	}
	for _, cl := range ct.DT.Clauses {
		self := false
		for _, h := range ct.Handlers[cl] {
			if h == ct.Command.Obj {
				self = true
			}
		}
		if !self {
			continue
		}
		okArm := len(cl.Strings) > 0
		for _, s := range cl.Strings {
			if !prefixes[s] {
				okArm = false
			}
		}
		c.check(okArm, "redispatch/"+strings.Join(cl.Strings, ","), cl.Clause.Pos(),
			"re-dispatch arm covers exactly the prefixes of the two-word commands", "command calls itself from an arm that is not a two-word-command prefix")
	}
	c.check(len(ct.DT.Clauses) >= 60, "dispatch-table-size", ct.DT.Stmt.Pos(), fmt.Sprintf("%d arms", len(ct.DT.Clauses)), fmt.Sprintf("only %d arms found", len(ct.DT.Clauses)))
}

func keys(m map[string]bool) []string {
	var out []string
	for k := range m {
		out = append(out, k)
	}
	sort.Strings(out)
	return out
}

func ruleLockAccess(c *Ctx, writes bool) { ruleLockAccessFor(c, writes, nil) }

// ruleLockAccessFor: only is nil for every guarded location, or selects the locations a property is about.
func ruleLockAccessFor(c *Ctx, writes bool, only map[string]bool) {
	a := c.muLK()
	if a.err != "" {
		c.und("engine", 0, "%s", a.err)
		return
	}
	lk := a.lk
	// an arm of the lock table that cannot be interpreted (a lock operation nested in a conditional, …) is reported by
	// R7.ct-join / R18.script-locks; the handlers behind it would all be analysed as unlocked and every one of their
	// accesses reported — one undecided obligation says so instead
	for _, cl := range a.ct.LT.Clauses {
		if lc := a.ct.LTClass[cl]; lc != nil && lc.Problem != "" {
			c.und("lock-table", cl.Clause.Pos(), "the lock arm of %v cannot be interpreted (%s): the lock state of the handlers behind it is unknown, so their accesses are not judged one by one", cl.Strings, lc.Problem)
			return
		}
	}
	c.stat("units_analysed", len(lk.units))
	c.stat("automatic_roots", len(lk.autoRoots))
	for loc := range c.muData().unknown {
		c.und("unclassified-container-method/"+loc, 0, "container method %s is in neither the mutator nor the reader table", loc)
	}
	for _, as := range lk.Accesses() {
		if as.Acc.Write != writes || as.Acc.Loc == "Server.aofdirty.Store" {
			continue
		}
		if only != nil && !only[as.Acc.Loc] {
			continue
		}
		key := as.Unit.Name + "→" + as.Acc.Loc + ":" + as.Acc.Desc
		var badState int
		if writes {
			badState = as.States &^ LX
		} else {
			badState = as.States & LN
		}
		if badState == 0 {
			c.ok(key, as.Acc.Pos, true, "executes only in state %s", lockStr(as.States))
			continue
		}
		// witness for the weakest offending state
		st := LN
		if badState&LN == 0 {
			st = LR
		}
		chain := lk.Chain(as.Unit, as.wit[st])
		kind := "read"
		if writes {
			kind = "write"
		}
		c.badPath(key, as.Acc.Pos, chain, "%s of %s (%s) may execute with Server.mu in state %s", kind, as.Acc.Loc, as.Acc.Desc, lockStr(st))
	}
}

func ruleBalance(c *Ctx) {
	a := c.muLK()
	if a.err != "" {
		c.und("engine", 0, "%s", a.err)
		return
	}
	lk := a.lk
	bad := map[*Unit]*lkProblem{}
	for _, p := range lk.problems {
		switch p.Kind {
		case "balance", "double-lock", "release-not-held", "defer-overflow":
			if bad[p.Unit] == nil {
				bad[p.Unit] = p
			}
		}
	}
	// one obligation per unit that performs a lock operation
	for _, u := range lk.units {
		if u.events == nil {
			continue
		}
		has := false
		for _, evs := range u.events {
			for _, e := range evs {
				if (e.Kind == evLockOp) || (e.Kind == evDefer && e.Op != lkNone) {
					has = true
				}
			}
		}
		if p := bad[u]; p != nil {
			c.badPath(u.Name, p.Pos, lk.Chain(u, p.Key), "%s: %s", p.Kind, p.Msg)
		} else if has {
			c.ok(u.Name, u.Pos(), true, "acquire/release paired on every path (entry states %s)", entryStates(lk, u))
		}
	}
}

func entryStates(lk *LK, u *Unit) string {
	var ks []string
	for k := range lk.entries[u] {
		ks = append(ks, lk.keyStr(k))
	}
	sort.Strings(ks)
	if len(ks) > 4 {
		ks = append(ks[:4], fmt.Sprintf("…+%d", len(ks)-4))
	}
	return strings.Join(ks, ",")
}

func ruleLockNeutral(c *Ctx) {
	a := c.muLK()
	if a.err != "" {
		c.und("engine", 0, "%s", a.err)
		return
	}
	lk := a.lk
	bad := map[*Unit]*lkProblem{}
	for _, p := range lk.problems {
		if p.Kind == "release-callers-lock" && bad[p.Unit] == nil {
			bad[p.Unit] = p
		}
	}
	for _, u := range lk.units {
		held := false
		for k := range lk.entries[u] {
			if k.joined || k.ls == LX || k.ls == LR {
				held = true
			}
		}
		if !held {
			continue
		}
		if p := bad[u]; p != nil {
			if u.Name == "server.(*Server).cmdFollow" {
				c.ok(u.Name, p.Pos, true, "reviewed exception: FOLLOW drops the exclusive lock around the leader handshake and re-acquires it (balance is checked by R7.balance)")
				continue
			}
			c.badPath(u.Name, p.Pos, lk.Chain(u, p.Key), "%s", p.Msg)
		} else {
			c.ok(u.Name, u.Pos(), false, "entered with the lock held (%s); performs no release of the caller's lock", entryStates(lk, u))
		}
	}
}

func ruleStartupGate(c *Ctx) {
	sv := c.Func("internal/server", "", "Serve")
	hic := c.Func("internal/server", "Server", "handleInputCommand")
	if sv == nil || hic == nil {
		c.und("anchors", 0, "Serve or handleInputCommand not found")
		return
	}
	lr := c.Field("internal/server", "Server", "loadedAndReady")
	// 1. in Serve: loadAOF call dominates loadedAndReady.Store(true)
	fg := newFlowGraph(sv.Info(), sv.Decl.Body)
	loads := fg.FindCalls(func(f *typesFunc, call *astCall) bool {
		return isMethod(f, modPath+"/internal/server", "Server", "loadAOF")
	})
	stores := fg.Find(func(n astNode) bool {
		call, ok := n.(*astCall)
		if !ok {
			return false
		}
		se, ok := unparen(call.Fun).(*astSel)
		return ok && se.Sel.Name == "Store" && selField(sv.Info(), se.X) == lr
	})
	if len(loads) == 0 || len(stores) == 0 {
		c.und("Serve/loadAOF-before-ready", sv.Decl.Pos(), "loadAOF call or loadedAndReady.Store not found in Serve")
	} else {
		// loadAOF sits in `if opts.AppendOnly {}`; require: no path from entry to the store avoiding ... the branch.
		// Precisely: every path to the store either passes loadAOF or skips the AppendOnly block (no aof at all).
		okk := true
		for _, st := range stores {
			for _, ld := range loads {
				// the store must not be reachable from entry before the load *within the branch that opens the file*:
				// equivalently the load's enclosing if-block dominates nothing after; check ordering by reachability:
				// store reachable from load, and load not reachable from store.
				r1, _ := fg.Reach(PathQuery{From: ld, Target: func(l Loc) bool { return l.Block == st.Block && l.Idx == st.Idx }})
				r2, _ := fg.Reach(PathQuery{From: st, Target: func(l Loc) bool { return l.Block == ld.Block && l.Idx == ld.Idx }})
				if !r1 || r2 {
					okk = false
				}
			}
		}
		c.check(okk, "Serve/loadAOF-before-ready", stores[0].Node.Pos(), "loadAOF precedes loadedAndReady.Store(true) and is not reachable after it", "loadedAndReady may be set before loadAOF has run")
	}
	// 2. in handleInputCommand: the !loadedAndReady gate dominates the lock switch
	ct := c.CT()
	if ct.Err != "" {
		c.und("hic/gate", 0, "%s", ct.Err)
		return
	}
	hfg := newFlowGraph(hic.Info(), hic.Decl.Body)
	gateLoads := hfg.Find(func(n astNode) bool {
		call, ok := n.(*astCall)
		if !ok {
			return false
		}
		se, ok := unparen(call.Fun).(*astSel)
		return ok && se.Sel.Name == "Load" && selField(hic.Info(), se.X) == lr
	})
	swLoc := hfg.LocOf(ct.LT.Stmt.Tag)
	if len(gateLoads) == 0 || !swLoc.Valid() {
		c.bad("hic/gate-dominates", hic.Decl.Pos(), "no loadedAndReady.Load() test found before the lock switch")
		return
	}
	c.check(hfg.Dominates(gateLoads[0], swLoc), "hic/gate-dominates", gateLoads[0].Node.Pos(),
		"the loadedAndReady test dominates the lock switch", "the lock switch is reachable without testing loadedAndReady")
	// bypass set: the string switch guarded by the gate
	allowed := map[string]bool{"output": true, "ping": true, "echo": true, "auth": true}
	var bypass []string
	okb := false
	for _, ss := range stringSwitches(hic, func(e astExpr) bool { return c.isCommandTag(hic, e) }) {
		if ss.Stmt == ct.LT.Stmt {
			continue
		}
		l := hfg.LocOf(ss.Stmt.Tag)
		if !l.Valid() {
			continue
		}
		// is it inside the gate's true branch?
		inGate := false
		for _, f := range hfg.DominatingFacts(l) {
			if f.Neg && containsNode(f.E, gateLoads[0].Node) {
				inGate = true
			}
		}
		if !inGate {
			continue
		}
		okb = true
		for _, cl := range ss.Clauses {
			if cl.IsDefault {
				continue
			}
			bypass = append(bypass, cl.Strings...)
		}
	}
	if !okb {
		c.bad("hic/gate-bypass", gateLoads[0].Node.Pos(), "bypass switch of the loading gate not found")
		return
	}
	var extra []string
	for _, b := range bypass {
		if !allowed[b] {
			extra = append(extra, b)
		}
	}
	c.check(len(extra) == 0, "hic/gate-bypass", gateLoads[0].Node.Pos(), fmt.Sprintf("bypass set %v ⊆ {output ping echo auth}", bypass), fmt.Sprintf("commands %v are served while the dataset is loading", extra))
}

// ---------------------------------------------------------------------------
// R7.no-stale-decision: check-then-act across a lock release

func init() {
	register(&Rule{ID: "R7.no-stale-decision", Props: []string{"C07", "C14"}, Floor: 3,
		Text: "in a function that holds Server.mu in two separate critical sections, no value that was obtained from guarded state in the earlier section is passed, after the lock was released, to a call that mutates persistent state in a later section (decide and act must be one critical section: another client's write can land in between and the stale decision is then applied and logged after it)",
		Run:  ruleNoStaleDecision})
}

func ruleNoStaleDecision(c *Ctx) {
	a := c.muLK()
	if a.err != "" {
		c.und("engine", 0, "%s", a.err)
		return
	}
	lk := a.lk
	guardedAll := map[string]bool{"Collection": true}
	for _, n := range serverGuardedNames {
		guardedAll["Server."+n] = true
	}
	n := 0
	for _, u := range lk.units {
		info := u.Info()
		// lock operations directly in this unit's body, in source order
		type op struct {
			pos  token.Pos
			kind lockKind
		}
		var ops []op
		inspectNoLit(u.Body, func(x ast.Node) bool {
			if d, ok := x.(*ast.DeferStmt); ok {
				_ = d
				return false
			}
			if call, ok := x.(*ast.CallExpr); ok {
				if k := c.serverMuOp(info, call); k != lkNone {
					ops = append(ops, op{call.Pos(), k})
				}
			}
			return true
		})
		acq := 0
		for _, o := range ops {
			if o.kind == lkLock || o.kind == lkRLock {
				acq++
			}
		}
		if acq < 2 {
			continue
		}
		n++
		// sections: [acquire_i, release_i]
		type section struct{ from, to token.Pos }
		var secs []section
		var cur *section
		for _, o := range ops {
			switch o.kind {
			case lkLock, lkRLock:
				secs = append(secs, section{from: o.pos, to: u.Body.End()})
				cur = &secs[len(secs)-1]
			case lkUnlock, lkRUnlock:
				if cur != nil {
					cur.to = o.pos
					cur = nil
				}
			}
		}
		inSec := func(p token.Pos) int {
			for i, s := range secs {
				if s.from <= p && p <= s.to {
					return i
				}
			}
			return -1
		}
		// variables assigned inside a section from an expression that reads guarded state
		readsGuarded := func(e ast.Node) bool {
			hit := false
			ast.Inspect(e, func(x ast.Node) bool {
				if hit {
					return false
				}
				switch y := x.(type) {
				case *ast.CallExpr:
					if f := callee(info, y); f != nil {
						if cu := lk.ofDecl[f]; cu != nil && len(lk.reads(cu, guardedAll)) > 0 {
							hit = true
						}
					}
					for _, acc := range lk.spec.Classify(u, y, ctxRead) {
						if guardedAll[acc.Loc] {
							hit = true
						}
					}
				case *ast.SelectorExpr:
					for _, acc := range lk.spec.Classify(u, y, ctxRead) {
						if guardedAll[acc.Loc] {
							hit = true
						}
					}
				}
				return true
			})
			return hit
		}
		derived := map[types.Object]int{} // var → section index it was computed in
		inspectNoLit(u.Body, func(x ast.Node) bool {
			as, ok := x.(*ast.AssignStmt)
			if !ok {
				return true
			}
			si := inSec(as.Pos())
			if si < 0 {
				return true
			}
			tainted := false
			for _, r := range as.Rhs {
				if readsGuarded(r) {
					tainted = true
				}
			}
			if !tainted {
				return true
			}
			for _, l := range as.Lhs {
				if id, ok := l.(*ast.Ident); ok && id.Name != "_" {
					if o := info.ObjectOf(id); o != nil {
						if _, isErr := o.Type().Underlying().(*types.Interface); isErr && o.Name() == "err" {
							continue
						}
						derived[o] = si
					}
				}
			}
			return true
		})
		bad := false
		inspectNoLit(u.Body, func(x ast.Node) bool {
			call, ok := x.(*ast.CallExpr)
			if !ok {
				return true
			}
			sj := inSec(call.Pos())
			if sj < 0 {
				return true
			}
			f := callee(info, call)
			if f == nil {
				return true
			}
			cu := lk.ofDecl[f]
			if cu == nil || len(lk.effects(cu, persistLocs)) == 0 {
				return true
			}
			for _, arg := range call.Args {
				ast.Inspect(arg, func(y ast.Node) bool {
					if id, ok := y.(*ast.Ident); ok {
						if si, ok := derived[info.ObjectOf(id)]; ok && si < sj {
							bad = true
							c.bad(u.Name+"→"+f.Name()+"("+id.Name+")", call.Pos(),
								"%s was computed from guarded state in an earlier critical section of Server.mu and is passed to %s, which mutates persistent state, after the lock was released and re-acquired: a write by another client in between is overwritten by the stale decision", id.Name, f.Name())
						}
					}
					return true
				})
			}
			return true
		})
		if !bad {
			c.ok(u.Name, u.Pos(), true, "%d critical sections of Server.mu; nothing computed from guarded state in one of them drives a persistent mutation in a later one", len(secs))
		}
	}
	c.stat("units_with_several_critical_sections", n)
}
