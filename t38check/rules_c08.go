package main

import (
	"go/ast"
	"go/token"
	"go/types"

	"golang.org/x/tools/go/cfg"
)

func init() {
	register(&Rule{ID: "R8.flag-under-lock", Props: []string{"C08"}, Floor: 2,
		Text: "every store to the dirty flag (Server.aofdirty.Store) executes with Server.mu held exclusively: appends set it and the pre-write clears it inside the same critical section as the flush, so a concurrent append is either flushed by that section or re-sets the flag after the clear",
		Run:  ruleFlagUnderLock})
	register(&Rule{ID: "R8.flush-before-send", Props: []string{"C08", "C03"}, Floor: 1,
		Text: "in netServe's connection closure every write of client.out to the socket is separated from every preceding handleInputCommand call by either the false edge of aofdirty.Load() or a flushAOF call made with Server.mu held exclusively (directly, in an invoked literal, or in a helper — must-pass-through on go/cfg with summaries, inlining bound 3)",
		Run:  ruleFlushBeforeSend})
	register(&Rule{ID: "R8.set-on-append", Props: []string{"C08", "C18"}, Floor: 1,
		Text: "every function that grows Server.aofbuf also stores true to aofdirty on every path to the append",
		Run:  ruleSetOnAppend})
	register(&Rule{ID: "R8.flush-complete", Props: []string{"C08"}, Floor: 2,
		Text: "flushAOF hands the whole buffer to aof.Write before it truncates the buffer, and the write error is not dropped (it panics)",
		Run:  ruleFlushComplete})
}

func ruleFlagUnderLock(c *Ctx) {
	a := c.muLK()
	if a.err != "" {
		c.und("engine", 0, "%s", a.err)
		return
	}
	n := 0
	for _, as := range a.lk.Accesses() {
		if as.Acc.Loc != "Server.aofdirty.Store" {
			continue
		}
		n++
		key := as.Unit.Name + "→" + as.Acc.Desc
		if as.States&^LX == 0 {
			c.ok(key, as.Acc.Pos, true, "executes only with Server.mu held exclusively")
			continue
		}
		st := LN
		if as.States&LN == 0 {
			st = LR
		}
		c.badPath(key, as.Acc.Pos, a.lk.Chain(as.Unit, as.wit[st]),
			"store to the dirty flag may execute with Server.mu in state %s: an append by another connection can fall between the flush and this store and be acknowledged unflushed", lockStr(st))
	}
	if n == 0 {
		c.bad("no-store", 0, "no store to Server.aofdirty found")
	}
}

func isFlushAOF(f *types.Func) bool {
	return isMethod(f, modPath+"/internal/server", "Server", "flushAOF")
}

// flushSummary: does every path through body (entry → return) pass either
// the false edge of aofdirty.Load() or a flushAOF call under the exclusive
// lock? depth bounds helper inlining.
type flushCtx struct {
	c     *Ctx
	dirty *types.Var
	memo  map[*ast.BlockStmt]int // 0 unknown, 1 yes, 2 no
}

func (fc *flushCtx) isLoadFalseEdge(fg *FlowGraph, b *cfg.Block, si int) bool {
	for _, f := range fg.edgeFacts(b, si) {
		if f.Tag != nil || !f.Neg {
			continue
		}
		call, ok := ast.Unparen(f.E).(*ast.CallExpr)
		if !ok {
			continue
		}
		se, ok := ast.Unparen(call.Fun).(*ast.SelectorExpr)
		if ok && selField(fg.Info, se.X) == fc.dirty {
			// Load() false, or a failed CompareAndSwap(true, _) : the flag was clear
			if se.Sel.Name == "Load" || se.Sel.Name == "CompareAndSwap" && len(call.Args) == 2 && boolConst(fg.Info, call.Args[0]) == '1' {
				return true
			}
		}
	}
	return false
}

// flushEvent: node l contains a flush under the exclusive lock.
func (fc *flushCtx) flushEvent(fg *FlowGraph, fn *FuncInfo, l Loc, depth int) bool {
	hit := false
	inspectNoLit(l.Node, func(n ast.Node) bool {
		call, ok := n.(*ast.CallExpr)
		if !ok || hit {
			return !hit
		}
		f := callee(fg.Info, call)
		if isFlushAOF(f) {
			if fc.lockedAt(fg, l) {
				hit = true
			}
			return true
		}
		if depth <= 0 {
			return true
		}
		// invoked literal
		if lit, ok := ast.Unparen(call.Fun).(*ast.FuncLit); ok {
			if fc.bodyAlwaysFlushes(fn, lit.Body, depth-1, true) {
				hit = true
			}
			return true
		}
		// helper function
		if f != nil {
			if hf := fc.c.FuncOf(f); hf != nil && hf.Pkg == fn.Pkg {
				if fc.bodyAlwaysFlushes(hf, hf.Decl.Body, depth-1, false) {
					hit = true
				}
			}
		}
		return true
	})
	return hit
}

// lockedAt: a Server.mu exclusive acquire dominates l with no explicit release in between.
func (fc *flushCtx) lockedAt(fg *FlowGraph, l Loc) bool {
	locks := fg.Find(func(n ast.Node) bool {
		call, ok := n.(*ast.CallExpr)
		return ok && fc.c.serverMuOp(fg.Info, call) == lkLock
	})
	for _, lk := range locks {
		// skip deferred Lock
		if _, isDefer := lk.Block.Nodes[lk.Idx].(*ast.DeferStmt); isDefer {
			continue
		}
		if !fg.Dominates(lk, l) {
			continue
		}
		rel, _ := fg.Reach(PathQuery{From: lk,
			Target: func(x Loc) bool {
				if _, isDefer := x.Node.(*ast.DeferStmt); isDefer {
					return false
				}
				hit := false
				inspectNoLit(x.Node, func(n ast.Node) bool {
					if call, ok := n.(*ast.CallExpr); ok {
						if k := fc.c.serverMuOp(fg.Info, call); k == lkUnlock || k == lkRUnlock {
							hit = true
						}
					}
					return true
				})
				return hit
			},
			Avoid: func(x Loc) bool { return x.Block == l.Block && x.Idx == l.Idx },
		})
		if !rel {
			return true
		}
	}
	return false
}

// bodyAlwaysFlushes: every entry→return path passes a flush event; when
// allowClean, the false edge of aofdirty.Load() also satisfies the path.
func (fc *flushCtx) bodyAlwaysFlushes(fn *FuncInfo, body *ast.BlockStmt, depth int, _ bool) bool {
	if v := fc.memo[body]; v != 0 {
		return v == 1
	}
	fc.memo[body] = 2
	fg := newFlowGraph(fn.Info(), body)
	reach, _ := fg.Reach(PathQuery{
		Target: func(l Loc) bool { _, ok := l.Node.(*ast.ReturnStmt); return ok },
		Avoid:  func(l Loc) bool { return fc.flushEvent(fg, fn, l, depth) },
		EdgeOK: func(b *cfg.Block, si int) bool { return !fc.isLoadFalseEdge(fg, b, si) },
	})
	if !reach {
		fc.memo[body] = 1
	}
	return !reach
}

func ruleFlushBeforeSend(c *Ctx) {
	ns := c.Func("internal/server", "Server", "netServe")
	if ns == nil {
		c.und("anchors", 0, "netServe not found")
		return
	}
	info := ns.Info()
	out := c.Field("internal/server", "Client", "out")
	dirty := c.Field("internal/server", "Server", "aofdirty")
	var lit *ast.FuncLit
	ast.Inspect(ns.Decl.Body, func(n ast.Node) bool {
		if g, ok := n.(*ast.GoStmt); ok && lit == nil {
			if l, ok := ast.Unparen(g.Call.Fun).(*ast.FuncLit); ok {
				lit = l
			}
		}
		return true
	})
	if lit == nil || out == nil || dirty == nil {
		c.und("closure", ns.Decl.Pos(), "connection closure, Client.out or Server.aofdirty not found")
		return
	}
	fg := newFlowGraph(info, lit.Body)
	fc := &flushCtx{c: c, dirty: dirty, memo: map[*ast.BlockStmt]int{}}
	// socket writes of client.out: X.Write(<...>.out) where X is not the Client itself
	writes := fg.Find(func(n ast.Node) bool {
		call, ok := n.(*ast.CallExpr)
		if !ok || len(call.Args) != 1 {
			return false
		}
		se, ok := ast.Unparen(call.Fun).(*ast.SelectorExpr)
		if !ok || se.Sel.Name != "Write" {
			return false
		}
		return selField(info, call.Args[0]) == out
	})
	srcs := fg.FindCalls(func(f *types.Func, call *ast.CallExpr) bool {
		return isMethod(f, modPath+"/internal/server", "Server", "handleInputCommand")
	})
	// a reply routine kept in a local closure (flushOut := func() {…}) that the loop invokes: inside it the write
	// must be protected on every path from the closure's entry — whatever happened before the call
	nClosureWrites := 0
	ast.Inspect(lit.Body, func(n ast.Node) bool {
		as, ok := n.(*ast.AssignStmt)
		if !ok || len(as.Lhs) != 1 || len(as.Rhs) != 1 {
			return true
		}
		inner, ok := as.Rhs[0].(*ast.FuncLit)
		if !ok {
			return true
		}
		name := exprStr(as.Lhs[0])
		ifg := newFlowGraph(info, inner.Body)
		for _, w := range ifg.Find(func(n ast.Node) bool {
			call, ok := n.(*ast.CallExpr)
			if !ok || len(call.Args) != 1 {
				return false
			}
			se, ok := ast.Unparen(call.Fun).(*ast.SelectorExpr)
			return ok && se.Sel.Name == "Write" && selField(info, call.Args[0]) == out
		}) {
			if enclosingFuncLit(c.Program, w.Node) != inner {
				continue
			}
			nClosureWrites++
			call := w.Node.(*ast.CallExpr)
			key := "netServe$conn/" + name + "→" + exprStr(call.Fun) + "(" + exprsStr(call.Args) + ")"
			ww := w
			reach, trail := ifg.Reach(PathQuery{
				Target: func(l Loc) bool { return l.Block == ww.Block && l.Idx == ww.Idx },
				Avoid: func(l Loc) bool {
					if l.Block == ww.Block && l.Idx == ww.Idx {
						return false
					}
					return fc.flushEvent(ifg, ns, l, 3)
				},
				EdgeOK: func(b *cfg.Block, si int) bool { return !fc.isLoadFalseEdge(ifg, b, si) },
			})
			if reach {
				var path []string
				for _, n := range trail {
					path = append(path, c.posStr(n.Pos()))
				}
				c.badPath(key, call.Pos(), path, "replies buffered in client.out reach the socket in this reply routine without the dirty flag having been tested or the AOF buffer flushed under the lock: a success reply can precede its log write")
			} else {
				c.ok(key, call.Pos(), true, "inside the reply routine every path to this socket write passes the dirty-flag test (clean) or a flush under the exclusive lock")
			}
		}
		return true
	})
	if (len(writes) == 0 && nClosureWrites == 0) || len(srcs) == 0 {
		c.bad("socket-writes", lit.Pos(), "no socket write of client.out or no handleInputCommand call found in the connection closure")
		return
	}
	c.stat("socket_writes_of_client_out", len(writes)+nClosureWrites)
	for _, w := range writes {
		call := w.Node.(*ast.CallExpr)
		key := "netServe$conn→" + exprStr(call.Fun) + "(" + exprsStr(call.Args) + ")"
		var witness []ast.Node
		bad := false
		for _, s := range srcs {
			reach, trail := fg.Reach(PathQuery{
				From:   s,
				Target: func(l Loc) bool { return l.Block == w.Block && l.Idx == w.Idx },
				Avoid: func(l Loc) bool {
					if l.Block == w.Block && l.Idx == w.Idx {
						return false
					}
					return fc.flushEvent(fg, ns, l, 3)
				},
				EdgeOK: func(b *cfg.Block, si int) bool { return !fc.isLoadFalseEdge(fg, b, si) },
			})
			if reach {
				bad = true
				witness = trail
			}
		}
		if bad {
			var path []string
			for _, n := range witness {
				path = append(path, c.posStr(n.Pos()))
			}
			c.badPath(key, call.Pos(), path, "replies buffered in client.out reach the socket after a command was handled without testing the dirty flag or flushing the AOF buffer under the lock: a success reply can precede its log write")
		} else {
			c.ok(key, call.Pos(), true, "every path from a handled command to this socket write passes the dirty-flag test (clean) or a flush under the exclusive lock")
		}
	}
}

func init() {
	register(&Rule{ID: "R8.log-under-lock", Props: []string{"C08", "C03"}, Floor: 8,
		Text: "'buffer empty' means 'everything accepted is in the file' only while the buffer and the file are changed together: every write of Server.aofbuf and every write of the log file Server.aof (also through a local that holds the handle) executes with Server.mu held exclusively — a flusher that takes the buffer over under the lock and writes it after the unlock lets a connection's pre-write find an empty buffer, clear the flag and acknowledge while the bytes are still on their way (the lock-state engine of C07, restricted to the two locations)",
		Run: func(c *Ctx) {
			ruleLockAccessFor(c, true, map[string]bool{"Server.aof": true, "Server.aofbuf": true})
		}})
}

func ruleSetOnAppend(c *Ctx) {
	aofbuf := c.Field("internal/server", "Server", "aofbuf")
	dirty := c.Field("internal/server", "Server", "aofdirty")
	if aofbuf == nil || dirty == nil {
		c.und("anchors", 0, "Server.aofbuf or Server.aofdirty not found")
		return
	}
	n := 0
	for _, fn := range c.AllFuncs("internal/server") {
		info := fn.Info()
		fg := (*FlowGraph)(nil)
		var grows []*ast.AssignStmt
		// locals that hold a grown view of the buffer: buf := f(s.aofbuf, …); buf = f(buf, …)
		grown := map[types.Object]bool{}
		takesBuf := func(e ast.Expr) bool {
			call, ok := ast.Unparen(e).(*ast.CallExpr)
			if !ok {
				return false
			}
			for _, a := range call.Args {
				if selField(info, a) == aofbuf {
					return true
				}
				if id, ok := ast.Unparen(a).(*ast.Ident); ok && grown[info.ObjectOf(id)] {
					return true
				}
			}
			return false
		}
		for changed := true; changed; {
			changed = false
			inspectNoLit(fn.Decl.Body, func(x ast.Node) bool {
				as, ok := x.(*ast.AssignStmt)
				if !ok || len(as.Lhs) != len(as.Rhs) {
					return true
				}
				for i, l := range as.Lhs {
					if id, ok := ast.Unparen(l).(*ast.Ident); ok && takesBuf(as.Rhs[i]) {
						if o := info.ObjectOf(id); o != nil && !grown[o] {
							grown[o] = true
							changed = true
						}
					}
				}
				return true
			})
		}
		inspectNoLit(fn.Decl.Body, func(x ast.Node) bool {
			as, ok := x.(*ast.AssignStmt)
			if !ok || len(as.Lhs) != 1 || len(as.Rhs) != 1 || selField(info, as.Lhs[0]) != aofbuf {
				return true
			}
			// growth: rhs is a call that takes aofbuf (or a grown view of it) as an argument (append, redcon.AppendX),
			// or a local that holds such a view
			if takesBuf(as.Rhs[0]) {
				grows = append(grows, as)
			} else if id, ok := ast.Unparen(as.Rhs[0]).(*ast.Ident); ok && grown[info.ObjectOf(id)] {
				grows = append(grows, as)
			}
			return true
		})
		if len(grows) == 0 {
			continue
		}
		fg = newFlowGraph(info, fn.Decl.Body)
		stores := fg.Find(func(x ast.Node) bool {
			call, ok := x.(*ast.CallExpr)
			if !ok || len(call.Args) != 1 {
				return false
			}
			se, ok := ast.Unparen(call.Fun).(*ast.SelectorExpr)
			return ok && se.Sel.Name == "Store" && selField(info, se.X) == dirty && boolConst(info, call.Args[0]) == '1'
		})
		for _, g := range grows {
			n++
			gl := fg.LocOf(g)
			okk := false
			for _, s := range stores {
				if gl.Valid() && fg.Dominates(s, gl) {
					okk = true
				}
			}
			how := "aofdirty.Store(true) dominates the append"
			if !okk {
				// a helper that only encodes (appendAOFBuf): the flag is set by every caller before the call
				sites, all := 0, true
				for _, caller := range c.AllFuncs("internal/server") {
					if caller.Decl.Body == nil || caller.Obj == fn.Obj {
						continue
					}
					cinfo := caller.Info()
					var cfgc *FlowGraph
					inspectNoLit(caller.Decl.Body, func(x ast.Node) bool {
						call, ok := x.(*ast.CallExpr)
						if !ok || callee(cinfo, call) != fn.Obj {
							return true
						}
						sites++
						if cfgc == nil {
							cfgc = newFlowGraph(cinfo, caller.Decl.Body)
						}
						cl := cfgc.LocOfOuter(call)
						dom := false
						for _, st := range cfgc.Find(func(y ast.Node) bool {
							sc, ok := y.(*ast.CallExpr)
							if !ok || len(sc.Args) != 1 {
								return false
							}
							se, ok := ast.Unparen(sc.Fun).(*ast.SelectorExpr)
							return ok && se.Sel.Name == "Store" && selField(cinfo, se.X) == dirty && boolConst(cinfo, sc.Args[0]) == '1'
						}) {
							if cl.Valid() && cfgc.Dominates(st, cl) {
								dom = true
							}
						}
						if !dom {
							all = false
						}
						return true
					})
				}
				if sites > 0 && all {
					okk = true
					how = "aofdirty.Store(true) dominates every call of this helper"
				}
			}
			c.check(okk, funcName(fn.Obj)+"→aofbuf-append", g.Pos(), how, "Server.aofbuf grows without the dirty flag being set on every path: the pre-write test would skip the flush")
		}
	}
	if n == 0 {
		c.bad("no-append", 0, "no function grows Server.aofbuf")
	}
}

func ruleFlushComplete(c *Ctx) {
	fl := c.Func("internal/server", "Server", "flushAOF")
	if fl == nil {
		c.und("anchors", 0, "flushAOF not found")
		return
	}
	info := fl.Info()
	aofbuf := c.Field("internal/server", "Server", "aofbuf")
	aof := c.Field("internal/server", "Server", "aof")
	fg := newFlowGraph(info, fl.Decl.Body)
	helpers := c.calledOnlyFrom("flushAOF")
	xf := newXFlow(c, info, fl.Decl.Body, func(f *types.Func) bool { return helpers[f] && f != fl.Obj })
	writes := fg.Find(func(x ast.Node) bool {
		call, ok := x.(*ast.CallExpr)
		if !ok || len(call.Args) != 1 {
			return false
		}
		se, ok := ast.Unparen(call.Fun).(*ast.SelectorExpr)
		return ok && se.Sel.Name == "Write" && selField(info, se.X) == aof && selField(info, call.Args[0]) == aofbuf
	})
	// resets of the buffer, in flushAOF or in a helper only it calls (resetAOFBuf)
	isReset := func(x ast.Node) bool {
		as, ok := x.(*ast.AssignStmt)
		if !ok {
			return false
		}
		for _, l := range as.Lhs {
			if selField(info, l) == aofbuf {
				return true
			}
		}
		return false
	}
	resets := xf.Find(isReset)
	if len(writes) == 0 {
		c.bad("write-whole-buffer", fl.Decl.Pos(), "flushAOF does not pass the whole Server.aofbuf to aof.Write")
		return
	}
	okDom := len(resets) > 0
	for _, r := range resets {
		d := false
		for _, w := range writes {
			if xf.Dominates(XLoc{Outer: w, N: w.Node}, r) {
				d = true
			}
		}
		if !d {
			okDom = false
		}
	}
	c.check(okDom, "write-before-truncate", fl.Decl.Pos(), "aof.Write(aofbuf) dominates every reset of aofbuf", "aofbuf can be truncated without having been written")
	// error of the write must be used: assigned to a variable that is tested
	w := writes[0]
	as, isAssign := w.Block.Nodes[w.Idx].(*ast.AssignStmt)
	errUsed := false
	if isAssign && len(as.Lhs) == 2 {
		if id, ok := as.Lhs[1].(*ast.Ident); ok && id.Name != "_" {
			o := info.ObjectOf(id)
			// a later condition tests it against nil and the true branch does not return normally
			for _, b := range fg.G.Blocks {
				if cond, _ := fg.condOf(b); cond != nil {
					ast.Inspect(cond, func(n ast.Node) bool {
						if x, ok := n.(*ast.Ident); ok && info.ObjectOf(x) == o {
							errUsed = true
						}
						return true
					})
				}
			}
		}
	}
	c.check(errUsed, "write-error-checked", w.Node.Pos(), "the error of aof.Write is tested", "the error of aof.Write(aofbuf) is dropped: a failed write would be acknowledged")
	// unconditional: with a non-empty buffer every return of flushAOF has passed the write — the only
	// edge allowed to skip it is the one on which len(aofbuf) is known to be 0
	isWrite := func(l Loc) bool {
		for _, w := range writes {
			if l.Block == w.Block && l.Idx == w.Idx {
				return true
			}
		}
		return false
	}
	emptyEdge := func(b *cfg.Block, si int) bool {
		for _, f := range fg.edgeFacts(b, si) {
			be, ok := ast.Unparen(f.E).(*ast.BinaryExpr)
			if !ok || f.Tag != nil {
				continue
			}
			call, ok := ast.Unparen(be.X).(*ast.CallExpr)
			if !ok || len(call.Args) != 1 || selField(info, call.Args[0]) != aofbuf {
				continue
			}
			if id, ok := ast.Unparen(call.Fun).(*ast.Ident); !ok || id.Name != "len" {
				continue
			}
			tv, ok := info.Types[be.Y]
			if !ok || tv.Value == nil || tv.Value.String() != "0" {
				continue
			}
			if (be.Op == token.GTR || be.Op == token.NEQ) && f.Neg || be.Op == token.EQL && !f.Neg {
				return true
			}
		}
		return false
	}
	skip, trail := fg.Reach(PathQuery{Target: func(l Loc) bool { _, ok := l.Node.(*ast.ReturnStmt); return ok }, Avoid: isWrite,
		EdgeOK: func(b *cfg.Block, si int) bool { return !emptyEdge(b, si) }})
	if !skip {
		// falling off the end of the body
		for _, b := range fg.G.Blocks {
			if fg.Reachable(b) && len(b.Succs) == 0 && (len(b.Nodes) == 0 || !isReturn(b.Nodes[len(b.Nodes)-1])) {
				bb := b
				s2, t2 := fg.Reach(PathQuery{Target: func(l Loc) bool { return l.Block == bb && l.Idx == len(bb.Nodes)-1 }, Avoid: isWrite,
					EdgeOK: func(x *cfg.Block, si int) bool { return !emptyEdge(x, si) }})
				if len(bb.Nodes) == 0 {
					// an empty exit block: reachable iff some predecessor path avoids the write
					s2, t2 = reachBlockAvoiding(fg, bb, isWrite, emptyEdge)
				}
				if s2 {
					skip, trail = true, t2
				}
			}
		}
	}
	if skip {
		var path []string
		for _, nd := range trail {
			path = append(path, c.posStr(nd.Pos()))
		}
		c.badPath("write-unconditional", fl.Decl.Pos(), path, "flushAOF can return without passing aof.Write(aofbuf) although the buffer may be non-empty (the only edge allowed to skip the write is len(aofbuf) == 0): the pre-write then acknowledges commands that are still only in memory")
	} else {
		c.ok("write-unconditional", fl.Decl.Pos(), true, "every exit of flushAOF passes aof.Write(aofbuf) unless len(aofbuf) == 0")
	}
}

// reachBlockAvoiding: block target is reachable from the entry without passing a node for which avoid holds
// and without taking an edge for which skipEdge holds.
func reachBlockAvoiding(fg *FlowGraph, target *cfg.Block, avoid func(Loc) bool, skipEdge func(*cfg.Block, int) bool) (bool, []ast.Node) {
	seen := map[int32]bool{}
	var trail []ast.Node
	var walk func(b *cfg.Block) bool
	walk = func(b *cfg.Block) bool {
		if seen[b.Index] {
			return false
		}
		seen[b.Index] = true
		for i, n := range b.Nodes {
			if avoid(Loc{b, i, n}) {
				return false
			}
		}
		if b == target {
			return true
		}
		for si, s := range b.Succs {
			if skipEdge(b, si) {
				continue
			}
			mark := len(trail)
			if len(b.Nodes) > 0 {
				trail = append(trail, b.Nodes[len(b.Nodes)-1])
			}
			if walk(s) {
				return true
			}
			trail = trail[:mark]
		}
		return false
	}
	ok := walk(fg.G.Blocks[0])
	return ok, trail
}
