package main

import (
	"go/ast"
	"go/token"
	"go/types"
)

func init() {
	register(&Rule{ID: "R6.size-tracks-file", Props: []string{"C06"}, Floor: 3,
		Text: "Server.aofsz (the follower's resume position, the leader's checksum range, the caught-up test) is the size of the live log: every store of a new handle into Server.aof is followed, on every path to a normal return of that function, by a statement that settles aofsz for that file — for a file created empty (os.Create, O_TRUNC) `aofsz = 0`, directly or through a helper that performs it on every path; for a file opened with its content the loader (which counts what it reads: R4.size-accounting) or `aofsz = <result of Seek(0, end) on the log>`",
		Run:  func(c *Ctx) { ruleSizeTracksFile(c, true, false) }})
	register(&Rule{ID: "R4.loader-entry", Props: []string{"C04", "C06"}, Floor: 2,
		Text: "the loader is only entered with aofsz known to be 0 — a zero store (possibly the loader's own first use of the field) dominates the call with no other store in between, or the calling function built the Server value and never stored the field — which is the entry assumption of R4.size-accounting (aofsz = file offset = 0 at entry; the loader counts what it reads on top of it)",
		Run:  func(c *Ctx) { ruleSizeTracksFile(c, false, true) }})
}

func ruleSizeTracksFile(c *Ctx, doOpens, doLoader bool) {
	aof := c.Field("internal/server", "Server", "aof")
	aofsz := c.Field("internal/server", "Server", "aofsz")
	if aof == nil || aofsz == nil {
		c.und("anchors", 0, "Server.aof or Server.aofsz not found")
		return
	}
	loaders := c.calledOnlyFrom("loadAOF")
	ld := c.Func("internal/server", "Server", "loadAOF")
	if ld == nil {
		c.und("anchors", 0, "loadAOF not found")
		return
	}
	isLoader := func(f *types.Func) bool { return f != nil && f == ld.Obj }
	_ = loaders
	// zeroStore: X.aofsz = 0
	zeroStore := func(info *types.Info, n ast.Node) bool {
		hit := false
		inspectNoLit(n, func(m ast.Node) bool {
			if as, ok := m.(*ast.AssignStmt); ok && as.Tok == token.ASSIGN && len(as.Lhs) == len(as.Rhs) {
				for i, l := range as.Lhs {
					if selField(info, l) == aofsz {
						if tv, ok := info.Types[as.Rhs[i]]; ok && tv.Value != nil && tv.Value.String() == "0" {
							hit = true
						}
					}
				}
			}
			return true
		})
		return hit
	}
	anyStore := func(info *types.Info, n ast.Node) bool {
		hit := false
		inspectNoLit(n, func(m ast.Node) bool {
			switch s := m.(type) {
			case *ast.AssignStmt:
				for _, l := range s.Lhs {
					if selField(info, l) == aofsz {
						hit = true
					}
				}
			case *ast.IncDecStmt:
				if selField(info, s.X) == aofsz {
					hit = true
				}
			}
			return true
		})
		return hit
	}
	// mustZero: every normal path through the function passes a zero store (or a call of such a function)
	mustZeroMemo := map[*types.Func]int{}
	var mustZero func(f *types.Func, depth int) bool
	callsMustZero := func(info *types.Info, n ast.Node, depth int) bool {
		hit := false
		inspectNoLit(n, func(m ast.Node) bool {
			if call, ok := m.(*ast.CallExpr); ok {
				if f := callee(info, call); f != nil && c.FuncOf(f) != nil && mustZero(f, depth+1) {
					hit = true
				}
			}
			return true
		})
		return hit
	}
	mustZero = func(f *types.Func, depth int) bool {
		if v, ok := mustZeroMemo[f]; ok {
			return v == 1
		}
		if depth > 3 {
			return false
		}
		mustZeroMemo[f] = 0
		fi := c.FuncOf(f)
		if fi == nil || fi.Decl.Body == nil {
			return false
		}
		info := fi.Info()
		fg := newFlowGraph(info, fi.Decl.Body)
		settle := func(l Loc) bool { return zeroStore(info, l.Node) || callsMustZero(info, l.Node, depth) }
		// is there any settle at all, and can an exit be reached without one
		any := len(fg.Find(func(n ast.Node) bool {
			if _, isStmt := n.(ast.Stmt); !isStmt {
				return false
			}
			return zeroStore(info, n)
		})) > 0
		if !any {
			found := false
			for _, b := range fg.G.Blocks {
				for _, n := range b.Nodes {
					if fg.Reachable(b) && callsMustZero(info, n, depth) {
						found = true
					}
				}
			}
			if !found {
				return false
			}
		}
		skip, _ := fg.Reach(PathQuery{Target: func(l Loc) bool { return isReturn(l.Node) }, Avoid: settle})
		if !skip {
			// falling off the end without a return
			for _, b := range fg.G.Blocks {
				if fg.Reachable(b) && len(b.Succs) == 0 && (len(b.Nodes) == 0 || !isReturn(b.Nodes[len(b.Nodes)-1])) {
					if len(b.Nodes) > 0 && endsInNoReturn(info, b.Nodes[len(b.Nodes)-1]) {
						continue
					}
					if ok, _ := reachBlockAvoiding(fg, b, func(t Loc) bool { return settle(t) }, func(*cfgBlock, int) bool { return false }); ok {
						skip = true
					}
				}
			}
		}
		if !skip {
			mustZeroMemo[f] = 1
		}
		return !skip
	}
	// the loader's own first use of aofsz is a zero store
	loaderZeroesFirst := func() bool {
		info := ld.Info()
		fg := newFlowGraph(info, ld.Decl.Body)
		var zs []Loc
		for _, b := range fg.G.Blocks {
			for i, n := range b.Nodes {
				if fg.Reachable(b) && zeroStore(info, n) {
					zs = append(zs, Loc{b, i, n})
				}
			}
		}
		if len(zs) == 0 {
			return false
		}
		ok := true
		for _, b := range fg.G.Blocks {
			for i, n := range b.Nodes {
				if !fg.Reachable(b) {
					continue
				}
				uses := false
				inspectNoLit(n, func(m ast.Node) bool {
					if se, isSel := m.(*ast.SelectorExpr); isSel && selField(info, se) == aofsz {
						uses = true
					}
					return true
				})
				l := Loc{b, i, n}
				if uses && !(l.Block == zs[0].Block && l.Idx == zs[0].Idx) && !fg.Dominates(zs[0], l) {
					ok = false
				}
			}
		}
		return ok
	}()
	nOpen, nLoad := 0, 0
	for _, fn := range c.AllFuncs("internal/server") {
		info := fn.Info()
		// bodies: the declared function and its literals, each with its own flow graph
		var bodies []*ast.BlockStmt
		bodies = append(bodies, fn.Decl.Body)
		ast.Inspect(fn.Decl.Body, func(n ast.Node) bool {
			if l, ok := n.(*ast.FuncLit); ok {
				bodies = append(bodies, l.Body)
			}
			return true
		})
		for _, body := range bodies {
			var fg *FlowGraph
			graph := func() *FlowGraph {
				if fg == nil {
					fg = newFlowGraph(info, body)
				}
				return fg
			}
			// stores of a handle into Server.aof
			inspectNoLit(body, func(n ast.Node) bool {
				as, ok := n.(*ast.AssignStmt)
				if !ok || !doOpens {
					return true
				}
				for _, l := range as.Lhs {
					if selField(info, l) != aof {
						continue
					}
					nOpen++
					key := "settled-after-open/" + funcName(fn.Obj)
					// how the file was opened
					empty := false
					var openCall *ast.CallExpr
					if len(as.Rhs) == 1 {
						openCall, _ = ast.Unparen(as.Rhs[0]).(*ast.CallExpr)
					}
					if openCall != nil {
						f := callee(info, openCall)
						if isFunc(f, "os", "Create") {
							empty = true
						}
						if isFunc(f, "os", "OpenFile") && len(openCall.Args) >= 2 {
							ast.Inspect(openCall.Args[1], func(m ast.Node) bool {
								if se, ok := m.(*ast.SelectorExpr); ok && se.Sel.Name == "O_TRUNC" {
									empty = true
								}
								return true
							})
						}
					}
					g := graph()
					from := g.LocOfOuter(as)
					if !from.Valid() {
						c.und(key, as.Pos(), "the store to Server.aof is not a node of the flow graph")
						continue
					}
					settle := func(lc Loc) bool {
						if lc.Block == from.Block && lc.Idx == from.Idx {
							return false
						}
						hit := false
						if empty && (zeroStore(info, lc.Node) || callsMustZero(info, lc.Node, 0)) {
							hit = true
						}
						inspectNoLit(lc.Node, func(m ast.Node) bool {
							switch x := m.(type) {
							case *ast.CallExpr:
								if isLoader(callee(info, x)) {
									hit = true
								}
							case *ast.AssignStmt:
								// aofsz = int(n) with n the result of Seek(0, end) on the log
								for i, lh := range x.Lhs {
									if selField(info, lh) == aofsz && i < len(x.Rhs) && seekEndValue(info, body, aof, x.Rhs[i]) {
										hit = true
									}
								}
							}
							return true
						})
						return hit
					}
					skip, wit := g.Reach(PathQuery{From: from, Target: func(lc Loc) bool {
						r, ok := lc.Node.(*ast.ReturnStmt)
						return ok && !returnsNonNilError(g, info, r)
					}, Avoid: settle})
					kind := "a file opened with its content: the loader or aofsz = Seek(0, end)"
					if empty {
						kind = "a file created empty: aofsz = 0, the loader, or aofsz = Seek(0, end)"
					}
					c.checkPath(!skip, key, as.Pos(), wit,
						"every path from the new log handle to a normal return settles aofsz ("+kind+")",
						"a new handle is stored in Server.aof and a normal return is reachable without aofsz being set to the size of that file ("+kind+"): the follower's resume position, the checksum range and the caught-up test then work with the size of the previous file")
				}
				return true
			})
			// loader entries
			inspectNoLit(body, func(n ast.Node) bool {
				call, ok := n.(*ast.CallExpr)
				if !ok || !doLoader || !isLoader(callee(info, call)) {
					return true
				}
				nLoad++
				key := "loader-entry/" + funcName(fn.Obj)
				if loaderZeroesFirst {
					c.ok(key, call.Pos(), true, "the loader zeroes aofsz before any other use of it")
					return true
				}
				g := graph()
				at := g.LocOfOuter(call)
				if !at.Valid() {
					c.und(key, call.Pos(), "the loader call is not a node of the flow graph")
					return true
				}
				// a zero settle dominates the call, and no other store lies between
				var zs []Loc
				for _, b := range g.G.Blocks {
					for i, nd := range b.Nodes {
						if g.Reachable(b) && (zeroStore(info, nd) || callsMustZero(info, nd, 0)) {
							lc := Loc{b, i, nd}
							if g.Dominates(lc, at) && !(lc.Block == at.Block && lc.Idx == at.Idx) {
								zs = append(zs, lc)
							}
						}
					}
				}
				good := false
				how := ""
				for _, z := range zs {
					dirty, _ := g.Reach(PathQuery{From: z, Target: func(lc Loc) bool { return lc.Block == at.Block && lc.Idx == at.Idx },
						Avoid: func(lc Loc) bool { return false }})
					_ = dirty
					// stores between z and the call
					between, _ := g.Reach(PathQuery{From: z, Target: func(lc Loc) bool {
						if lc.Block == at.Block && lc.Idx == at.Idx {
							return false
						}
						if !anyStoreOrCall(c, info, lc.Node, aofsz, anyStore) || zeroStore(info, lc.Node) || callsMustZero(info, lc.Node, 0) {
							return false
						}
						// only stores that can still reach the call matter
						r, _ := g.Reach(PathQuery{From: lc, Target: func(t Loc) bool { return t.Block == at.Block && t.Idx == at.Idx }})
						return r
					}, Avoid: func(lc Loc) bool { return lc.Block == at.Block && lc.Idx == at.Idx }})
					if !between {
						good = true
						how = "aofsz = 0 at " + c.posStr(z.Node.Pos()) + " dominates the call and nothing stores the field in between"
					}
				}
				if !good {
					// the function built the Server value itself and never stored the field before the call
					builds := false
					inspectNoLit(fn.Decl.Body, func(m ast.Node) bool {
						if cl, ok := m.(*ast.CompositeLit); ok {
							if tv, ok := info.Types[cl]; ok && isNamedType(tv.Type, modPath+"/internal/server", "Server") {
								builds = true
								for _, el := range cl.Elts {
									if kv, ok := el.(*ast.KeyValueExpr); ok {
										if id, ok := kv.Key.(*ast.Ident); ok && id.Name == aofsz.Name() {
											builds = false
										}
									}
								}
							}
						}
						return true
					})
					if builds {
						stored, _ := g.Reach(PathQuery{Target: func(lc Loc) bool {
							if lc.Block == at.Block && lc.Idx == at.Idx {
								return false
							}
							if !anyStoreOrCall(c, info, lc.Node, aofsz, anyStore) {
								return false
							}
							r, _ := g.Reach(PathQuery{From: lc, Target: func(t Loc) bool { return t.Block == at.Block && t.Idx == at.Idx }})
							return r
						}, Avoid: func(lc Loc) bool { return lc.Block == at.Block && lc.Idx == at.Idx }})
						if !stored {
							good = true
							how = "the function builds the Server value (aofsz is its zero value) and nothing stores the field before the call"
						}
					}
				}
				c.check(good, key, call.Pos(), how,
					"the loader is entered without aofsz known to be 0: it counts what it reads on top of the old value, so the size it leaves (and R4.size-accounting's proof, which starts from aofsz = file offset = 0) is off by the size of the previous log")
				return true
			})
		}
	}
	if doOpens {
		c.stat("log_handle_stores", nOpen)
	}
	if doLoader {
		c.stat("loader_calls", nLoad)
	}
}

// anyStoreOrCall: the node stores Server.aofsz directly or calls a repository function whose body (one
// level) stores it.
func anyStoreOrCall(c *Ctx, info *types.Info, n ast.Node, aofsz *types.Var, anyStore func(*types.Info, ast.Node) bool) bool {
	if anyStore(info, n) {
		return true
	}
	hit := false
	inspectNoLit(n, func(m ast.Node) bool {
		if call, ok := m.(*ast.CallExpr); ok {
			if f := callee(info, call); f != nil {
				if fi := c.FuncOf(f); fi != nil && fi.Decl.Body != nil {
					ast.Inspect(fi.Decl.Body, func(y ast.Node) bool {
						if st, ok := y.(ast.Stmt); ok && anyStore(fi.Info(), st) {
							hit = true
						}
						return !hit
					})
				}
			}
		}
		return true
	})
	return hit
}

// seekEndValue: the expression is (a conversion of) a variable assigned from Seek(0, 2|io.SeekEnd) on the log.
func seekEndValue(info *types.Info, body ast.Node, aof *types.Var, e ast.Expr) bool {
	e = ast.Unparen(e)
	if call, ok := e.(*ast.CallExpr); ok && len(call.Args) == 1 {
		if tv, ok := info.Types[call.Fun]; ok && tv.IsType() {
			e = ast.Unparen(call.Args[0])
		}
	}
	id, ok := e.(*ast.Ident)
	if !ok {
		return false
	}
	obj := info.ObjectOf(id)
	found, other := false, false
	ast.Inspect(body, func(n ast.Node) bool {
		as, ok := n.(*ast.AssignStmt)
		if !ok {
			return true
		}
		for i, l := range as.Lhs {
			lid, ok := ast.Unparen(l).(*ast.Ident)
			if !ok || info.ObjectOf(lid) != obj {
				continue
			}
			good := false
			if i == 0 && len(as.Rhs) == 1 {
				if call, ok := ast.Unparen(as.Rhs[0]).(*ast.CallExpr); ok && len(call.Args) == 2 {
					if se, ok := ast.Unparen(call.Fun).(*ast.SelectorExpr); ok && se.Sel.Name == "Seek" && selField(info, se.X) == aof {
						a0, ok0 := info.Types[call.Args[0]]
						a1, ok1 := info.Types[call.Args[1]]
						if ok0 && ok1 && a0.Value != nil && a1.Value != nil && a0.Value.String() == "0" && a1.Value.String() == "2" {
							good = true
						}
					}
				}
			}
			if good {
				found = true
			} else {
				other = true
			}
		}
		return true
	})
	return found && !other
}

// returnsNonNilError: the return hands back an error that is known non-nil (a constant error, a call that
// builds one, or a variable known non-nil by a dominating test).
func returnsNonNilError(fg *FlowGraph, info *types.Info, r *ast.ReturnStmt) bool {
	if len(r.Results) == 0 {
		return false
	}
	last := ast.Unparen(r.Results[len(r.Results)-1])
	t := info.TypeOf(last)
	if t == nil || !isErrorType(t) {
		return false
	}
	if tv, ok := info.Types[last]; ok && tv.IsNil() {
		return false
	}
	id, ok := last.(*ast.Ident)
	if !ok {
		return true
	}
	if v, isVar := info.ObjectOf(id).(*types.Var); !isVar || (v.Pkg() != nil && v.Parent() == v.Pkg().Scope()) {
		return true
	}
	l := fg.LocOf(r)
	if !l.Valid() {
		return false
	}
	for k, v := range fg.identFacts(fg.DominatingFacts(l)) {
		if k.obj == info.ObjectOf(id) && k.isNil && !v {
			return true
		}
	}
	return false
}

// R6.status-reports-live-bit
func init() {
	register(&Rule{ID: "R6.status-reports-live-bit", Props: []string{"C06"}, Floor: 2,
		Text: "a follower never reports itself healthy or caught up while it is re-synchronising: the gate in front of the commands tests the sticky bit (caughtUpOnce: 'has been caught up at some time', which lets a follower keep serving reads through a reconnect), so the two status reports have to test the live bit themselves — the handler of HEALTHZ (found through the dispatch table), evaluated in the scenario 'follower, live bit false' (scenario evaluation on go/cfg, helpers included), reaches no return without an error; and the value stored under \"caught_up\" in the SERVER reply is the call of the live predicate caughtUp(), the one followStep clears before every (re)connect (R6.caught-up-guard)",
		Run:  ruleStatusReportsLiveBit})
}

func ruleStatusReportsLiveBit(c *Ctx) {
	a := c.muLK()
	if a.err != "" {
		c.und("engine", 0, "command tables not available: %s", a.err)
		return
	}
	ct := a.ct
	live := c.Func("internal/server", "Server", "caughtUp")
	if live == nil {
		c.und("anchors", 0, "Server.caughtUp not found")
		return
	}
	// the live predicate is the one followStep clears: setCaughtUp(false) and caughtUp() use the same field —
	// the function named caughtUp must not have become an alias of the sticky one
	once := c.Func("internal/server", "Server", "caughtUpOnce")
	if once != nil && live.Decl.Body != nil && once.Decl.Body != nil {
		// what a predicate looks at: the fields it reads and the named constants (bit masks) it uses
		reads := func(fn *FuncInfo) map[types.Object]bool {
			out := map[types.Object]bool{}
			ast.Inspect(fn.Decl.Body, func(n ast.Node) bool {
				switch x := n.(type) {
				case *ast.SelectorExpr:
					if fv := selField(fn.Info(), x); fv != nil {
						out[fv] = true
					}
				case *ast.Ident:
					if k, ok := fn.Info().ObjectOf(x).(*types.Const); ok && k.Pkg() != nil {
						out[k] = true
					}
				}
				return true
			})
			return out
		}
		lr, or := reads(live), reads(once)
		same := len(lr) > 0
		for f := range lr {
			if !or[f] {
				same = false
			}
		}
		c.check(!same, "live-bit-distinct", live.Decl.Pos(), "caughtUp and caughtUpOnce look at different fields or bits", "caughtUp() looks at nothing but what caughtUpOnce() looks at (same fields, same bit constants): the live bit has become the sticky bit")
	}
	var handlers []*types.Func
	for _, cl := range ct.DT.Clauses {
		for _, s := range cl.Strings {
			if s == "healthz" {
				handlers = append(handlers, ct.Handlers[cl]...)
			}
		}
	}
	if len(handlers) == 0 {
		c.und("healthz", 0, "no handler of 'healthz' in the dispatch table")
		return
	}
	sc := c.serverScenario(map[string]byte{"follower": '1', "caughtuplive": '0'}, "healthz", false)
	for _, h := range handlers {
		fi := c.FuncOf(h)
		if fi == nil || fi.Decl.Body == nil {
			continue
		}
		info := fi.Info()
		fg := newFlowGraph(info, fi.Decl.Body)
		reach, w := c.scenReach(fg, fi.Decl.Body, sc, Loc{}, func(l Loc) bool {
			r, ok := l.Node.(*ast.ReturnStmt)
			return ok && !returnsError(info, fi, r)
		}, nil)
		c.checkPath(!reach, "healthz/"+funcName(h), fi.Decl.Pos(), w,
			"on a follower whose live caught-up bit is false every return carries an error",
			"HEALTHZ can answer without an error on a follower whose live caught-up bit is false: the gate in front of the handler tests the sticky bit only, so a follower that is re-synchronising after a reconnect (and may have thrown its dataset away) reports itself healthy")
	}
	// SERVER: m["caught_up"] = s.caughtUp()
	n := 0
	for _, fn := range c.AllFuncs("internal/server") {
		if fn.Decl.Body == nil {
			continue
		}
		info := fn.Info()
		ast.Inspect(fn.Decl.Body, func(x ast.Node) bool {
			as, ok := x.(*ast.AssignStmt)
			if !ok || len(as.Lhs) != 1 || len(as.Rhs) != 1 {
				return true
			}
			ix, ok := ast.Unparen(as.Lhs[0]).(*ast.IndexExpr)
			if !ok {
				return true
			}
			if k, ok := constString(info, ix.Index); !ok || k != "caught_up" {
				return true
			}
			n++
			call, isCall := ast.Unparen(as.Rhs[0]).(*ast.CallExpr)
			okk := isCall && callee(info, call) == live.Obj
			c.check(okk, "server-reply/"+funcName(fn.Obj)+"→caught_up", as.Pos(), "\"caught_up\" reports caughtUp()", "the \"caught_up\" member of the SERVER reply is not the live predicate caughtUp(): a re-synchronising follower reports itself caught up")
			return true
		})
	}
	if n == 0 {
		c.und("server-reply", 0, "no store of the \"caught_up\" member found")
	}
}

// R6.hook-owns-its-arguments
func init() {
	register(&Rule{ID: "R6.hook-owns-its-arguments", Props: []string{"C06", "C05", "C03"}, Floor: 1,
		Text: "a registered hook keeps the command that defined it (Hook.Message.Args: what HOOKS/CHANS print, what the rewrite of the log emits and what Hook.Equals compares), and it keeps it longer than the request lives: in the handler that builds a Hook, the Args of the Message stored in it are a slice created in that function (make and copy, an append to nil, a literal) — never the handler's own argument vector or a part of it. A caller may reuse its argument buffer for the next command (a follower reading the replication stream does, to save an allocation per command) and the stored definition would change behind the hook's back, on the follower only",
		Run:  ruleHookOwnsArguments})
}

func ruleHookOwnsArguments(c *Ctx) {
	msgField := c.Field("internal/server", "Hook", "Message")
	argsField := c.Field("internal/server", "Message", "Args")
	if msgField == nil || argsField == nil {
		c.und("anchors", 0, "Hook.Message or Message.Args not found")
		return
	}
	n := 0
	for _, fn := range c.AllFuncs("internal/server") {
		if fn.Decl.Body == nil {
			continue
		}
		info := fn.Info()
		ast.Inspect(fn.Decl.Body, func(x ast.Node) bool {
			cl, ok := x.(*ast.CompositeLit)
			if !ok {
				return true
			}
			tv, ok := info.Types[cl]
			if !ok || !isNamedType(tv.Type, modPath+"/internal/server", "Hook") {
				return true
			}
			var mv ast.Expr
			for _, el := range cl.Elts {
				if kv, ok := el.(*ast.KeyValueExpr); ok {
					if id, ok := kv.Key.(*ast.Ident); ok && id.Name == "Message" {
						mv = kv.Value
					}
				}
			}
			if mv == nil {
				return true
			}
			n++
			key := funcName(fn.Obj) + "→Hook.Message"
			mid, ok := ast.Unparen(mv).(*ast.Ident)
			if !ok {
				c.und(key, cl.Pos(), "the message stored in the hook is not a local variable")
				return true
			}
			mobj := info.ObjectOf(mid)
			fg := newFlowGraph(info, fn.Decl.Body)
			hl := fg.LocOfOuter(cl)
			// stores to <m>.Args that dominate the literal; the last kind decides
			owned, why := false, "the message is a copy of the request (its Args are the request's) and no fresh slice is stored into its Args before the hook is built"
			var at token.Pos = cl.Pos()
			for _, st := range fg.Find(func(y ast.Node) bool {
				as, ok := y.(*ast.AssignStmt)
				if !ok {
					return false
				}
				for _, l := range as.Lhs {
					if se, ok := ast.Unparen(l).(*ast.SelectorExpr); ok && selField(info, se) == argsField {
						if id, ok := ast.Unparen(se.X).(*ast.Ident); ok && info.ObjectOf(id) == mobj {
							return true
						}
					}
				}
				return false
			}) {
				if !hl.Valid() || !fg.Dominates(st, hl) {
					continue
				}
				as := st.Node.(*ast.AssignStmt)
				for i, l := range as.Lhs {
					se, ok := ast.Unparen(l).(*ast.SelectorExpr)
					if !ok || selField(info, se) != argsField || i >= len(as.Rhs) {
						continue
					}
					r := ast.Unparen(as.Rhs[i])
					fresh := false
					switch y := r.(type) {
					case *ast.CompositeLit:
						fresh = true
					case *ast.CallExpr:
						if id, ok := ast.Unparen(y.Fun).(*ast.Ident); ok {
							if _, isB := info.Uses[id].(*types.Builtin); isB {
								switch id.Name {
								case "make":
									fresh = true
								case "append":
									// append([]string(nil), …) / append([]string{}, …)
									if len(y.Args) > 0 {
										a0 := ast.Unparen(y.Args[0])
										if tv, ok := info.Types[a0]; ok && tv.IsNil() {
											fresh = true
										}
										if conv, ok := a0.(*ast.CallExpr); ok && len(conv.Args) == 1 {
											if tv, ok := info.Types[conv.Args[0]]; ok && tv.IsNil() {
												fresh = true
											}
										}
										if _, ok := a0.(*ast.CompositeLit); ok {
											fresh = true
										}
									}
								}
							}
						}
						if f := callee(info, y); f != nil && f.Pkg() != nil && f.Pkg().Path() == "slices" && f.Name() == "Clone" {
							fresh = true
						}
					}
					owned = fresh
					if !fresh {
						why = "its Args are set to " + exprStr(r) + ", which is not a slice created here"
						at = as.Pos()
					}
				}
			}
			c.check(owned, key, at, "the Args of the stored message are a slice created in the handler", "the hook keeps a message whose argument vector is not its own ("+why+"): a caller that reuses its argument buffer — the follower's replication loop — overwrites the stored definition with later commands; HOOKS/CHANS, Hook.Equals and a rewrite of the log on that server then see a command that was never issued")
			return true
		})
	}
	if n == 0 {
		c.und("sites", 0, "no Hook literal with a Message found")
	}
}
