package main

import (
	"fmt"
	"go/ast"
	"go/token"
	"go/types"
	"os"
)

func init() {
	register(&Rule{ID: "R4.size-accounting", Props: []string{"C04"}, Floor: 5,
		Text: "in loadAOF every chunk read from the log is added to aofsz before it is parsed; on the EOF path with an incomplete remainder aofsz is decreased by the remainder's length, that store dominates Truncate(aofsz) which dominates Seek(aofsz, 0) (a truncate without the seek leaves the write offset beyond the cut and the next append creates a zero hole), and the errors of both calls are returned",
		Run:  ruleSizeAccounting})
	register(&Rule{ID: "R4.nul-skip", Props: []string{"C04"}, Floor: 2,
		Text: "in loadAOF's parse loop the call of redcon.ReadNextCommand is dominated by the false edge of a test of data[0] against 0 whose true edge advances data by one byte: zero padding between commands is skipped instead of being parsed",
		Run:  ruleNulSkip})
}

type loadAOFView struct {
	fn    *FuncInfo
	info  *types.Info
	fg    *FlowGraph
	aof   *types.Var
	aofsz *types.Var
	parse Loc
}

func viewLoadAOF(c *Ctx) *loadAOFView {
	fn := c.Func("internal/server", "Server", "loadAOF")
	if fn == nil {
		return nil
	}
	v := &loadAOFView{fn: fn, info: fn.Info(), aof: c.Field("internal/server", "Server", "aof"), aofsz: c.Field("internal/server", "Server", "aofsz")}
	v.fg = newFlowGraph(v.info, fn.Decl.Body)
	ps := v.fg.FindCalls(func(f *types.Func, call *ast.CallExpr) bool {
		return isFunc(f, "github.com/tidwall/redcon", "ReadNextCommand")
	})
	if len(ps) > 0 {
		v.parse = ps[0]
	}
	return v
}

func (v *loadAOFView) aofCall(name string) []Loc {
	return v.fg.Find(func(n ast.Node) bool {
		call, ok := n.(*ast.CallExpr)
		if !ok {
			return false
		}
		se, ok := ast.Unparen(call.Fun).(*ast.SelectorExpr)
		return ok && se.Sel.Name == name && selField(v.info, se.X) == v.aof
	})
}

func mentionsField(info *types.Info, e ast.Node, f *types.Var) bool {
	hit := false
	ast.Inspect(e, func(n ast.Node) bool {
		if se, ok := n.(*ast.SelectorExpr); ok && selField(info, se) == f {
			hit = true
		}
		return true
	})
	return hit
}

// errReturned: the call is the init of `if err := call; err != nil { return err }` (or assigned and tested next).
func errReturned(c *Ctx, info *types.Info, call ast.Node) bool {
	// return call(...)   (possibly as one of several results)
	for p, k := c.Parent(call), 0; p != nil && k < 3; p, k = c.Parent(p), k+1 {
		if _, ok := p.(*ast.ReturnStmt); ok {
			return true
		}
		if _, ok := p.(ast.Stmt); ok {
			break
		}
	}
	// x, err := call   followed by   return …, err
	if as, ok := c.Parent(call).(*ast.AssignStmt); ok && len(as.Rhs) == 1 && len(as.Lhs) >= 1 {
		if blk, ok := c.Parent(as).(*ast.BlockStmt); ok {
			if eid, ok := as.Lhs[len(as.Lhs)-1].(*ast.Ident); ok {
				for i, st := range blk.List {
					if st == ast.Stmt(as) && i+1 < len(blk.List) {
						if r, ok := blk.List[i+1].(*ast.ReturnStmt); ok {
							for _, res := range r.Results {
								if rid, ok := ast.Unparen(res).(*ast.Ident); ok && info.ObjectOf(rid) == info.ObjectOf(eid) {
									return true
								}
							}
						}
					}
				}
			}
		}
	}
	// x, err := call   followed by   if err != nil { return …, err }
	if as, ok := c.Parent(call).(*ast.AssignStmt); ok && len(as.Rhs) == 1 && len(as.Lhs) >= 1 {
		if blk, ok := c.Parent(as).(*ast.BlockStmt); ok {
			if eid, ok := as.Lhs[len(as.Lhs)-1].(*ast.Ident); ok {
				for i, st := range blk.List {
					if st == ast.Stmt(as) && i+1 < len(blk.List) {
						if ifs, ok := blk.List[i+1].(*ast.IfStmt); ok && ifs.Init == nil {
							if be, ok := ast.Unparen(ifs.Cond).(*ast.BinaryExpr); ok && be.Op == token.NEQ {
								if id, ok := ast.Unparen(be.X).(*ast.Ident); ok && info.ObjectOf(id) == info.ObjectOf(eid) {
									for _, s2 := range ifs.Body.List {
										if r, ok := s2.(*ast.ReturnStmt); ok {
											for _, res := range r.Results {
												if rid, ok := ast.Unparen(res).(*ast.Ident); ok && info.ObjectOf(rid) == info.ObjectOf(eid) {
													return true
												}
											}
										}
									}
								}
							}
						}
					}
				}
			}
		}
	}
	var p ast.Node = call
	for i := 0; i < 4 && p != nil; i++ {
		p = c.Parent(p)
		if ifs, ok := p.(*ast.IfStmt); ok {
			be, ok := ast.Unparen(ifs.Cond).(*ast.BinaryExpr)
			if !ok || be.Op != token.NEQ {
				return false
			}
			id, ok := ast.Unparen(be.X).(*ast.Ident)
			if !ok {
				return false
			}
			for _, st := range ifs.Body.List {
				if r, ok := st.(*ast.ReturnStmt); ok {
					for _, res := range r.Results {
						if rid, ok := ast.Unparen(res).(*ast.Ident); ok && info.ObjectOf(rid) == info.ObjectOf(id) {
							return true
						}
					}
				}
			}
			return false
		}
	}
	return false
}

func ruleSizeAccounting(c *Ctx) {
	v := viewLoadAOF(c)
	if v == nil || !v.parse.Valid() {
		c.und("anchors", 0, "loadAOF or its ReadNextCommand call not found")
		return
	}
	info, fg := v.info, v.fg
	reads := v.aofCall("Read")
	// Truncate and Seek may live in a helper that only the loader calls (truncateAOFTail, say)
	type fileCall struct {
		call *ast.CallExpr
		in   *FuncInfo
	}
	var truncs, seeks []fileCall
	helpers := c.calledOnlyFrom(v.fn.Obj.Name())
	for f := range helpers {
		fi := c.FuncOf(f)
		if fi == nil {
			continue
		}
		ast.Inspect(fi.Decl.Body, func(n ast.Node) bool {
			call, ok := n.(*ast.CallExpr)
			if !ok {
				return true
			}
			se, ok := ast.Unparen(call.Fun).(*ast.SelectorExpr)
			if !ok || selField(fi.Info(), se.X) != v.aof {
				return true
			}
			switch se.Sel.Name {
			case "Truncate":
				truncs = append(truncs, fileCall{call, fi})
			case "Seek":
				seeks = append(seeks, fileCall{call, fi})
			}
			return true
		})
	}
	if len(reads) == 0 || len(truncs) == 0 || len(seeks) == 0 {
		c.bad("tail-repair", v.fn.Decl.Pos(), "expected a Read, a Truncate and a Seek on s.aof in loadAOF; found %d/%d/%d (a torn tail is not cut off, or the write offset is not moved to the cut)", len(reads), len(truncs), len(seeks))
		return
	}
	// the parser's data variable and the carry buffer that is prepended to the next chunk
	pcall := v.parse.Node.(*ast.CallExpr)
	did, _ := ast.Unparen(pcall.Args[0]).(*ast.Ident)
	if did == nil {
		c.und("data", pcall.Pos(), "first argument of ReadNextCommand is not a variable")
		return
	}
	dataObj := info.ObjectOf(did)
	var carry types.Object
	inspectNoLit(v.fn.Decl.Body, func(n ast.Node) bool {
		as, ok := n.(*ast.AssignStmt)
		if !ok || len(as.Lhs) != 1 || len(as.Rhs) != 1 {
			return true
		}
		l, ok := as.Lhs[0].(*ast.Ident)
		if !ok || info.ObjectOf(l) != dataObj {
			return true
		}
		ap, ok := ast.Unparen(as.Rhs[0]).(*ast.CallExpr)
		if !ok || !ap.Ellipsis.IsValid() || len(ap.Args) != 2 {
			return true
		}
		if id, ok := ast.Unparen(ap.Fun).(*ast.Ident); !ok || id.Name != "append" {
			return true
		}
		a0, ok0 := ast.Unparen(ap.Args[0]).(*ast.Ident)
		a1, ok1 := ast.Unparen(ap.Args[1]).(*ast.Ident)
		if ok0 && ok1 && info.ObjectOf(a1) == dataObj {
			carry = info.ObjectOf(a0)
		}
		return true
	})
	if carry == nil {
		c.und("carry", pcall.Pos(), "the buffer that carries an incomplete command into the next chunk (data = append(<carry>, data...)) was not found")
		return
	}
	// affine-equality analysis of the offsets. Ghost S = aofsz at entry + bytes read so far.
	mu := c.muLK()
	writesAofsz := map[*types.Func]bool{}
	isRead := func(n ast.Node) (*ast.CallExpr, ast.Expr) {
		var call *ast.CallExpr
		var res ast.Expr
		if as, ok := n.(*ast.AssignStmt); ok && len(as.Rhs) == 1 {
			if cl, ok := ast.Unparen(as.Rhs[0]).(*ast.CallExpr); ok {
				if se, ok := ast.Unparen(cl.Fun).(*ast.SelectorExpr); ok && se.Sel.Name == "Read" && selField(info, se.X) == v.aof {
					call = cl
					if len(as.Lhs) >= 1 {
						res = as.Lhs[0]
					}
				}
			}
		}
		if call == nil {
			inspectNoLit(n, func(m ast.Node) bool {
				if cl, ok := m.(*ast.CallExpr); ok {
					if se, ok := ast.Unparen(cl.Fun).(*ast.SelectorExpr); ok && se.Sel.Name == "Read" && selField(info, se.X) == v.aof {
						call = cl
					}
				}
				return true
			})
		}
		return call, res
	}
	cl := &AffClient{Fields: []*types.Var{v.aofsz}, Ghosts: []string{"S", "L0", "P", "F", "K"}}
	// redcon.ReadNextCommand: complete == false implies leftover == packet (nothing consumed; package
	// contract, every `return false, ...` of the three readers returns the packet it was given). Ghost L0
	// holds len(packet) before the call; on the !complete edge len(leftover) == L0.
	var parseAs *ast.AssignStmt
	if as, ok := v.parse.Block.Nodes[v.parse.Idx].(*ast.AssignStmt); ok && len(as.Lhs) == 5 && len(as.Rhs) == 1 {
		parseAs = as
	}
	var completeObj, leftoverObj types.Object
	if parseAs != nil {
		if id, ok := parseAs.Lhs[0].(*ast.Ident); ok {
			completeObj = info.ObjectOf(id)
		}
		if id, ok := parseAs.Lhs[3].(*ast.Ident); ok {
			leftoverObj = info.ObjectOf(id)
		}
	}
	// data = bytes.TrimLeft(data, …) / TrimPrefix: the result is a suffix of its argument (library contract), so it
	// consumes len(before) - len(after) bytes
	isSuffixAssign := func(n ast.Node) bool {
		as, ok := n.(*ast.AssignStmt)
		if !ok || leftoverObj == nil || as.Tok != token.ASSIGN || len(as.Lhs) != 1 || len(as.Rhs) != 1 {
			return false
		}
		id, ok := ast.Unparen(as.Lhs[0]).(*ast.Ident)
		if !ok || info.ObjectOf(id) != leftoverObj {
			return false
		}
		tc, ok := ast.Unparen(as.Rhs[0]).(*ast.CallExpr)
		if !ok || len(tc.Args) < 1 {
			return false
		}
		f := callee(info, tc)
		if !(isFunc(f, "bytes", "TrimLeft") || isFunc(f, "bytes", "TrimPrefix") || isFunc(f, "bytes", "TrimLeftFunc")) {
			return false
		}
		aid, ok := ast.Unparen(tc.Args[0]).(*ast.Ident)
		return ok && info.ObjectOf(aid) == leftoverObj
	}
	cl.Before = func(a *Aff, n ast.Node, st *affSpace) *affSpace {
		if isSuffixAssign(n) {
			if li, ok := a.idx[leftoverObj]; ok {
				return st.assignMany(map[int]*affForm{a.Ghost("L0"): a.VarForm(li)})
			}
		}
		if parseAs != nil && n == ast.Node(parseAs) {
			if f, ok := a.LenForm(pcall.Args[0]); ok {
				return st.assignMany(map[int]*affForm{a.Ghost("L0"): f})
			}
			return st.assignMany(map[int]*affForm{a.Ghost("L0"): nil})
		}
		return st
	}
	// Ghosts: S = aofsz at entry + bytes read; P = the file offset of s.aof (starts at S: the caller
	// positioned the file where aofsz says); F = the size of the file (unknown until end-of-file is seen).
	cl.Init = func(a *Aff, st *affSpace) *affSpace {
		// the loader is entered with aofsz = 0 = file offset (R6.size-tracks-file/loader-entry discharges this
		// at every call site), so a loader that zeroes the field itself first is the same function
		st = st.assume(a.VarForm(a.fidx[v.aofsz]))
		st = st.assume(a.VarForm(a.Ghost("S")).add(a.VarForm(a.fidx[v.aofsz]), -1))
		// K = entry offset + bytes consumed (by the parser, or skipped one by one): starts at the entry offset
		st = st.assume(a.VarForm(a.Ghost("K")).add(a.VarForm(a.Ghost("S")), -1))
		return st.assume(a.VarForm(a.Ghost("P")).add(a.VarForm(a.Ghost("S")), -1))
	}
	aofMethod := func(n ast.Node, name string) (*ast.CallExpr, ast.Expr) {
		var call *ast.CallExpr
		var res ast.Expr
		if as, ok := n.(*ast.AssignStmt); ok && len(as.Rhs) == 1 {
			if cl, ok := ast.Unparen(as.Rhs[0]).(*ast.CallExpr); ok {
				if se, ok := ast.Unparen(cl.Fun).(*ast.SelectorExpr); ok && se.Sel.Name == name && selField(info, se.X) == v.aof {
					call = cl
					if len(as.Lhs) >= 1 {
						res = as.Lhs[0]
					}
				}
			}
		}
		if call == nil {
			inspectNoLit(n, func(m ast.Node) bool {
				if cl, ok := m.(*ast.CallExpr); ok {
					if se, ok := ast.Unparen(cl.Fun).(*ast.SelectorExpr); ok && se.Sel.Name == name && selField(info, se.X) == v.aof {
						call = cl
					}
				}
				return true
			})
		}
		return call, res
	}
	cl.After = func(a *Aff, n ast.Node, st *affSpace) *affSpace {
		s, pg, fgh := a.Ghost("S"), a.Ghost("P"), a.Ghost("F")
		// consumption: the parser takes len(before) - len(leftover) bytes; `data = data[k:]` takes k
		if kg := a.Ghost("K"); leftoverObj != nil {
			if li, ok := a.idx[leftoverObj]; ok {
				if isSuffixAssign(n) {
					return st.assignMany(map[int]*affForm{kg: a.VarForm(kg).add(a.VarForm(a.Ghost("L0")), 1).add(a.VarForm(li), -1)})
				}
				if parseAs != nil && n == ast.Node(parseAs) {
					return st.assignMany(map[int]*affForm{kg: a.VarForm(kg).add(a.VarForm(a.Ghost("L0")), 1).add(a.VarForm(li), -1)})
				}
				if as, ok := n.(*ast.AssignStmt); ok && as.Tok == token.ASSIGN && len(as.Lhs) == 1 && len(as.Rhs) == 1 {
					if id, ok := ast.Unparen(as.Lhs[0]).(*ast.Ident); ok && info.ObjectOf(id) == leftoverObj {
						if sl, ok := ast.Unparen(as.Rhs[0]).(*ast.SliceExpr); ok && sl.High == nil && sl.Low != nil {
							if xid, ok := ast.Unparen(sl.X).(*ast.Ident); ok && info.ObjectOf(xid) == leftoverObj {
								if f, ok := a.Form(sl.Low); ok {
									return st.assignMany(map[int]*affForm{kg: a.VarForm(kg).add(f, 1)})
								}
								return st.assignMany(map[int]*affForm{kg: nil})
							}
						}
					}
				}
			}
		}
		if call, res := isRead(n); call != nil {
			if res != nil {
				if f, ok := a.Form(res); ok {
					return st.assignMany(map[int]*affForm{s: a.VarForm(s).add(f, 1), pg: a.VarForm(pg).add(f, 1)})
				}
			}
			return st.assignMany(map[int]*affForm{s: nil, pg: nil})
		}
		if call, _ := aofMethod(n, "Truncate"); call != nil && len(call.Args) == 1 {
			if f, ok := a.Form(call.Args[0]); ok {
				return st.assignMany(map[int]*affForm{fgh: f})
			}
			return st.assignMany(map[int]*affForm{fgh: nil})
		}
		if call, res := aofMethod(n, "Seek"); call != nil && len(call.Args) == 2 {
			var np *affForm
			if off, ok := a.Form(call.Args[0]); ok {
				if wh, ok := info.Types[call.Args[1]]; ok && wh.Value != nil {
					switch wh.Value.String() {
					case "0":
						np = off
					case "1":
						np = a.VarForm(pg).add(off, 1)
					case "2":
						np = a.VarForm(fgh).add(off, 1)
					}
				}
			}
			st = st.assignMany(map[int]*affForm{pg: np})
			if res != nil {
				if id, ok := ast.Unparen(res).(*ast.Ident); ok {
					if i, ok := a.idx[info.ObjectOf(id)]; ok {
						st = st.assignMany(map[int]*affForm{i: a.VarForm(pg)})
					}
				}
			}
			return st
		}
		return st
	}
	// os.File.Read returns io.EOF only together with n == 0 (package os contract): on the edge
	// where the read's error equals io.EOF the byte count is zero
	var readN, readErr types.Object
	for _, r := range reads {
		if as, ok := r.Block.Nodes[r.Idx].(*ast.AssignStmt); ok && len(as.Lhs) == 2 {
			if id, ok := as.Lhs[0].(*ast.Ident); ok {
				readN = info.ObjectOf(id)
			}
			if id, ok := as.Lhs[1].(*ast.Ident); ok {
				readErr = info.ObjectOf(id)
			}
		}
	}
	cl.Edge = func(a *Aff, facts []Fact, st *affSpace) *affSpace {
		for _, f := range facts {
			if id, ok := ast.Unparen(f.E).(*ast.Ident); ok && f.Tag == nil && f.Neg && completeObj != nil && info.ObjectOf(id) == completeObj && leftoverObj != nil {
				// the test must see the values the call produced: complete is assigned only there, and
				// leftover is not re-assigned between the call and the test
				stale := false
				inspectNoLit(v.fn.Decl.Body, func(m ast.Node) bool {
					if as, ok := m.(*ast.AssignStmt); ok && as != parseAs && as.Pos() > parseAs.End() && as.End() < f.E.Pos() {
						for _, l := range as.Lhs {
							if lid, ok := ast.Unparen(l).(*ast.Ident); ok && info.ObjectOf(lid) == leftoverObj {
								stale = true
							}
						}
					}
					return true
				})
				if i, ok := a.idx[leftoverObj]; ok && fg.assignCount(completeObj) <= 1 && !stale && f.E.Pos() > parseAs.End() {
					st = st.assume(a.VarForm(i).add(a.VarForm(a.Ghost("L0")), -1))
				}
			}
			be, ok := ast.Unparen(f.E).(*ast.BinaryExpr)
			if !ok || f.Tag != nil || readErr == nil || readN == nil {
				continue
			}
			id, ok := ast.Unparen(be.X).(*ast.Ident)
			if !ok || info.ObjectOf(id) != readErr {
				continue
			}
			se, ok := ast.Unparen(be.Y).(*ast.SelectorExpr)
			if !ok || se.Sel.Name != "EOF" {
				continue
			}
			if v, ok := info.ObjectOf(se.Sel).(*types.Var); !ok || v.Pkg() == nil || v.Pkg().Path() != "io" {
				continue
			}
			if be.Op == token.EQL && !f.Neg || be.Op == token.NEQ && f.Neg {
				if i, ok := a.idx[readN]; ok {
					st = st.assume(a.VarForm(i))
				}
				// end of file: the file offset is the file size
				st = st.assume(a.VarForm(a.Ghost("F")).add(a.VarForm(a.Ghost("P")), -1))
			}
		}
		return st
	}
	// helpers that only the loader calls and that do not reach the dispatcher take part in the offset
	// bookkeeping: they are analysed in place
	cmdUnit := func() *Unit {
		if mu.err != "" {
			return nil
		}
		return mu.lk.ofDecl[mu.ct.Command.Obj]
	}()
	cl.Inline = func(call *ast.CallExpr) *FuncInfo {
		f := callee(info, call)
		if f == nil || !helpers[f] || f == v.fn.Obj || mu.err != "" {
			return nil
		}
		if u := mu.lk.ofDecl[f]; u != nil {
			for _, r := range mu.lk.reachSync(u) {
				if r == cmdUnit {
					return nil
				}
			}
		}
		return c.FuncOf(f)
	}
	cl.FieldWrittenBy = func(call *ast.CallExpr, f *types.Var) bool {
		callee := callee(info, call)
		if callee == nil || mu.err != "" {
			return false
		}
		if w, ok := writesAofsz[callee]; ok {
			return w
		}
		w := false
		// The replayer feeds the dispatcher only commands of the logged (write) class (R3.vocabulary,
		// R3.replay-path): where the callee reaches the dispatcher, the handlers of that class are what
		// can run; everything else the callee does is taken as it is.
		cmdU := mu.lk.ofDecl[mu.ct.Command.Obj]
		locs := map[string]bool{"Server." + f.Name(): true}
		var units []*Unit
		reachesDispatch := callee == mu.ct.Command.Obj
		if u := mu.lk.ofDecl[callee]; u != nil && !reachesDispatch {
			for _, as := range mu.lk.effectsStop(u, locs, func(x *Unit) bool { return x == cmdU }) {
				if as.Acc.Write {
					w = true
				}
			}
			for _, r := range mu.lk.reachSync(u) {
				if r == cmdU {
					reachesDispatch = true
				}
			}
		}
		if reachesDispatch {
			for _, h := range writeHandlers(c) {
				units = append(units, mu.lk.ofDecl[h])
			}
		}
		for _, u := range units {
			if u == nil {
				continue
			}
			for _, as := range mu.lk.effects(u, locs) {
				if as.Acc.Write {
					w = true
				}
			}
		}
		writesAofsz[callee] = w
		return w
	}
	a := newAff(c, v.fn, cl)
	ci, okc := a.idx[carry]
	if !okc {
		c.und("carry", pcall.Pos(), "the carry buffer %s is not a trackable local slice", carry.Name())
		return
	}
	a.Run()
	for _, nt := range a.Notes {
		c.und("affine-analysis", v.fn.Decl.Pos(), "%s", nt)
	}
	// boundary = S - len(carry)
	boundary := a.VarForm(a.Ghost("S")).add(a.VarForm(ci), -1)
	// at every normal return: aofsz, the file offset and the file size are all at the boundary
	nret := 0
	for _, r := range fg.Returns() {
		rs := r.Node.(*ast.ReturnStmt)
		// `return helper(…)`: the helper's own normal exits are the normal return (the call is analysed in place, so
		// the state after the statement is the state at those exits)
		viaHelper := false
		if len(rs.Results) == 1 && cl.Inline != nil {
			if call, ok := ast.Unparen(rs.Results[0]).(*ast.CallExpr); ok && cl.Inline(call) != nil {
				viaHelper = true
			}
		}
		if returnsError(info, v.fn, rs) && !viaHelper {
			continue
		}
		nret++
		suffix := ""
		if nret > 1 {
			suffix = fmt.Sprintf("#%d", nret)
		}
		st := a.At(r)
		if viaHelper {
			st = a.AfterLoc(r)
		}
		if os.Getenv("AFFDBG") != "" {
			fmt.Fprintln(os.Stderr, "AFFDBG return", a.Dump(st))
		}
		for _, ob := range []struct {
			key, what, bad string
			f              *affForm
		}{
			{"aofsz-at-return", "aofsz", "the server's idea of the log size (used for follower positions, checksums and the next shrink) is wrong after start-up", a.VarForm(a.fidx[v.aofsz])},
			{"file-size-at-return", "the size of the log file", "the log is cut at an offset that is not the end of the last complete command (applied commands are cut off, or part of the torn tail stays in the file), or a torn tail is not cut at all", a.VarForm(a.Ghost("F"))},
			{"write-offset-at-return", "the file offset of the log", "after the repair the write offset is not the new end of the file: the next append leaves a hole of zero bytes or overwrites the tail of the good log", a.VarForm(a.Ghost("P"))},
		} {
			_ = ob
		}
		// every byte that was read and counted is either consumed or still in the carry: the cut is at the end
		// of the last consumed command
		if st.bottom || st.holds(a.VarForm(a.fidx[v.aofsz]).add(a.VarForm(a.Ghost("K")), -1)) {
			c.ok("cut-at-consumed"+suffix, rs.Pos(), true, "on normal return aofsz = entry offset + bytes consumed by the parser and the NUL skip (affine invariant): nothing that was read is dropped between the read and the parser")
		} else {
			c.bad("cut-at-consumed"+suffix, rs.Pos(), "on a normal return of loadAOF aofsz is not (entry offset + bytes consumed) on every path: bytes that were read and counted are neither parsed nor kept in %s, so the log is cut at an offset that is not the end of the last applied command and the start of the torn command stays in the file", carry.Name())
		}
		for _, ob := range []struct {
			key, what, bad string
			f              *affForm
		}{
			{"aofsz-at-return", "aofsz", "the server's idea of the log size (used for follower positions, checksums and the next shrink) is wrong after start-up", a.VarForm(a.fidx[v.aofsz])},
			{"file-size-at-return", "the size of the log file", "the log is cut at an offset that is not the end of the last complete command (applied commands are cut off, or part of the torn tail stays in the file), or a torn tail is not cut at all", a.VarForm(a.Ghost("F"))},
			{"write-offset-at-return", "the file offset of the log", "after the repair the write offset is not the new end of the file: the next append leaves a hole of zero bytes or overwrites the tail of the good log", a.VarForm(a.Ghost("P"))},
		} {
			if st.bottom || st.holds(ob.f.add(boundary, -1)) {
				c.ok(ob.key+suffix, rs.Pos(), true, "on normal return %s = (entry offset + bytes read) - len(%s) on every path (affine invariant)", ob.what, carry.Name())
			} else {
				c.bad(ob.key+suffix, rs.Pos(), "on a normal return of loadAOF %s is not (entry offset + bytes read) - len(%s) on every path: %s", ob.what, carry.Name(), ob.bad)
			}
		}
	}
	if nret == 0 {
		c.und("aofsz-at-return", v.fn.Decl.Pos(), "no normal return found in loadAOF")
	}
	// ordering and error discipline of the repair
	// the error of a call made in a helper must be returned by the helper and by every call of the helper in the loader
	propagated := func(fc fileCall) bool {
		if !errReturned(c, fc.in.Info(), fc.call) {
			return false
		}
		if fc.in.Obj == v.fn.Obj {
			return true
		}
		okAll, n := true, 0
		ast.Inspect(v.fn.Decl.Body, func(x ast.Node) bool {
			if call, ok := x.(*ast.CallExpr); ok && callee(info, call) == fc.in.Obj {
				n++
				if !errReturned(c, info, call) {
					okAll = false
				}
			}
			return true
		})
		return okAll && n > 0
	}
	for _, t := range truncs {
		c.check(propagated(t), "truncate-error-returned", t.call.Pos(), "the error of Truncate is returned", "the error of Truncate is dropped")
	}
	for _, sk := range seeks {
		c.check(propagated(sk), "seek-error-returned", sk.call.Pos(), "the error of Seek is returned", "the error of Seek is dropped")
	}
}

func ruleNulSkip(c *Ctx) {
	v := viewLoadAOF(c)
	if v == nil || !v.parse.Valid() {
		c.und("anchors", 0, "loadAOF or its ReadNextCommand call not found")
		return
	}
	info, fg := v.info, v.fg
	// the data variable: first argument of ReadNextCommand
	call := v.parse.Node.(*ast.CallExpr)
	did, ok := ast.Unparen(call.Args[0]).(*ast.Ident)
	if !ok {
		c.und("data", call.Pos(), "first argument of ReadNextCommand is not a variable")
		return
	}
	dataObj := info.ObjectOf(did)
	isNulTest := func(e ast.Expr) bool {
		hit := false
		ast.Inspect(e, func(n ast.Node) bool {
			be, ok := n.(*ast.BinaryExpr)
			if !ok || be.Op != token.EQL {
				return true
			}
			ix, ok := ast.Unparen(be.X).(*ast.IndexExpr)
			if !ok {
				return true
			}
			id, ok := ast.Unparen(ix.X).(*ast.Ident)
			if !ok || info.ObjectOf(id) != dataObj {
				return true
			}
			i0, ok0 := info.Types[ix.Index]
			v0, ok1 := info.Types[be.Y]
			if ok0 && ok1 && i0.Value != nil && v0.Value != nil && i0.Value.String() == "0" && v0.Value.String() == "0" {
				hit = true
			}
			return true
		})
		return hit
	}
	// the library form: data = bytes.TrimLeft(data, "\x00") directly in front of the parser (same block, no store to
	// data in between) removes every leading NUL
	trimmed := false
	if b := v.parse.Block; b != nil {
		for i := v.parse.Idx - 1; i >= 0 && !trimmed; i-- {
			as, ok := b.Nodes[i].(*ast.AssignStmt)
			if !ok {
				continue
			}
			stores := false
			for _, l := range as.Lhs {
				if id, ok := ast.Unparen(l).(*ast.Ident); ok && info.ObjectOf(id) == dataObj {
					stores = true
				}
			}
			if !stores {
				continue
			}
			if len(as.Lhs) == 1 && len(as.Rhs) == 1 {
				if tc, ok := ast.Unparen(as.Rhs[0]).(*ast.CallExpr); ok && isFunc(callee(info, tc), "bytes", "TrimLeft") && len(tc.Args) == 2 {
					if aid, ok := ast.Unparen(tc.Args[0]).(*ast.Ident); ok && info.ObjectOf(aid) == dataObj {
						if cut, ok := constString(info, tc.Args[1]); ok && cut == "\x00" {
							trimmed = true
						}
					}
				}
			}
			break // the nearest store to data decides
		}
	}
	if trimmed {
		c.ok("parse-after-nul-test", call.Pos(), true, "ReadNextCommand is preceded by data = bytes.TrimLeft(data, \"\\x00\"): it never sees a leading NUL")
		c.ok("nul-advances-data", call.Pos(), true, "bytes.TrimLeft removes every leading NUL byte")
		return
	}
	dom := false
	var testBlock Loc
	for _, f := range fg.DominatingFacts(v.parse) {
		// the whole condition `len(data) > 0 && data[0] == 0` is false on the edge: facts of a false && are not decomposed,
		// so look at the raw condition
		if f.Neg && isNulTest(f.E) {
			dom = true
		}
	}
	if !dom {
		// find the condition block directly
		for _, b := range fg.G.Blocks {
			cond, _ := fg.condOf(b)
			if cond != nil && isNulTest(cond) && fg.BlockDominates(b, v.parse.Block) {
				// parse must not be reachable through the true edge without re-testing
				viaTrue, _ := fg.Reach(PathQuery{From: Loc{b, len(b.Nodes) - 1, nil}, Target: func(l Loc) bool { return l.Block == v.parse.Block && l.Idx == v.parse.Idx },
					EdgeOK: func(from *cfgBlock, si int) bool { return !(from == b && si == 1) },
					Avoid:  func(l Loc) bool { return l.Block == b && l.Idx == len(b.Nodes)-1 }})
				if !viaTrue {
					dom = true
					testBlock = Loc{b, len(b.Nodes) - 1, nil}
				}
			}
		}
	}
	c.check(dom, "parse-after-nul-test", call.Pos(), "ReadNextCommand is only reached through the false edge of data[0] == 0", "ReadNextCommand can be reached with data[0] == 0 untested: zero padding in the log is parsed as a command and start-up fails or loses the tail")
	// the true edge advances data
	adv := false
	for _, l := range fg.Find(func(n ast.Node) bool {
		as, ok := n.(*ast.AssignStmt)
		if !ok || len(as.Lhs) != 1 || len(as.Rhs) != 1 {
			return false
		}
		id, ok := as.Lhs[0].(*ast.Ident)
		if !ok || info.ObjectOf(id) != dataObj {
			return false
		}
		sl, ok := ast.Unparen(as.Rhs[0]).(*ast.SliceExpr)
		if !ok || sl.Low == nil {
			return false
		}
		tv, ok := info.Types[sl.Low]
		return ok && tv.Value != nil && tv.Value.String() == "1"
	}) {
		for _, f := range fg.DominatingFacts(l) {
			if !f.Neg && isNulTest(f.E) {
				adv = true
			}
		}
		if testBlock.Valid() && fg.BlockDominates(testBlock.Block.Succs[0], l.Block) {
			adv = true
		}
	}
	c.check(adv, "nul-advances-data", call.Pos(), "the true edge of the NUL test advances data by one byte", "a NUL byte is detected but not skipped")
}
