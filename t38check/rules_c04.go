package main

import (
	"go/ast"
	"go/token"
	"go/types"
)

func init() {
	register(&Rule{ID: "R4.size-accounting", Props: []string{"C04"}, Floor: 5,
		Text: "in loadAOF every chunk read from the log is added to aofsz before it is parsed; on the EOF path with an incomplete remainder aofsz is decreased by the remainder's length, that store dominates Truncate(aofsz) which dominates Seek(aofsz, 0) (a truncate without the seek leaves the write offset beyond the cut and the next append creates a zero hole), and the errors of both calls are returned",
		Run:  ruleSizeAccounting})
	register(&Rule{ID: "R4.nul-skip", Props: []string{"C04"}, Floor: 2,
		Text: "in loadAOF's parse loop the call of redcon.ReadNextCommand is dominated by the false edge of a test of data[0] against 0 whose true edge advances data by one byte: zero padding between commands is skipped instead of being parsed",
		Run:  ruleNulSkip})
	register(&Rule{ID: "R4.carry", Props: []string{"C04"}, Floor: 1,
		Text: "after the parse loop the unparsed remainder of the chunk is copied into the carry buffer that is prepended to the next chunk, whenever it is non-empty",
		Run:  ruleCarry})
}

type loadAOFView struct {
	fn    *FuncInfo
	info  *types.Info
	fg    *FlowGraph
	aof   *types.Var
	aofsz *types.Var
	parse Loc
}

func viewLoadAOF(c *Ctx) *loadAOFView {
	fn := c.Func("internal/server", "Server", "loadAOF")
	if fn == nil {
		return nil
	}
	v := &loadAOFView{fn: fn, info: fn.Info(), aof: c.Field("internal/server", "Server", "aof"), aofsz: c.Field("internal/server", "Server", "aofsz")}
	v.fg = newFlowGraph(v.info, fn.Decl.Body)
	ps := v.fg.FindCalls(func(f *types.Func, call *ast.CallExpr) bool { return isFunc(f, "github.com/tidwall/redcon", "ReadNextCommand") })
	if len(ps) > 0 {
		v.parse = ps[0]
	}
	return v
}

func (v *loadAOFView) aofCall(name string) []Loc {
	return v.fg.Find(func(n ast.Node) bool {
		call, ok := n.(*ast.CallExpr)
		if !ok {
			return false
		}
		se, ok := ast.Unparen(call.Fun).(*ast.SelectorExpr)
		return ok && se.Sel.Name == name && selField(v.info, se.X) == v.aof
	})
}

func mentionsField(info *types.Info, e ast.Node, f *types.Var) bool {
	hit := false
	ast.Inspect(e, func(n ast.Node) bool {
		if se, ok := n.(*ast.SelectorExpr); ok && selField(info, se) == f {
			hit = true
		}
		return true
	})
	return hit
}

// errReturned: the call is the init of `if err := call; err != nil { return err }` (or assigned and tested next).
func errReturned(c *Ctx, info *types.Info, call ast.Node) bool {
	var p ast.Node = call
	for i := 0; i < 4 && p != nil; i++ {
		p = c.Parent(p)
		if ifs, ok := p.(*ast.IfStmt); ok {
			be, ok := ast.Unparen(ifs.Cond).(*ast.BinaryExpr)
			if !ok || be.Op != token.NEQ {
				return false
			}
			id, ok := ast.Unparen(be.X).(*ast.Ident)
			if !ok {
				return false
			}
			for _, st := range ifs.Body.List {
				if r, ok := st.(*ast.ReturnStmt); ok {
					for _, res := range r.Results {
						if rid, ok := ast.Unparen(res).(*ast.Ident); ok && info.ObjectOf(rid) == info.ObjectOf(id) {
							return true
						}
					}
				}
			}
			return false
		}
	}
	return false
}

func ruleSizeAccounting(c *Ctx) {
	v := viewLoadAOF(c)
	if v == nil || !v.parse.Valid() {
		c.und("anchors", 0, "loadAOF or its ReadNextCommand call not found")
		return
	}
	info, fg := v.info, v.fg
	reads := v.aofCall("Read")
	if len(reads) != 1 {
		c.bad("read", v.fn.Decl.Pos(), "expected exactly one s.aof.Read in loadAOF, found %d", len(reads))
		return
	}
	// n := result of Read
	var nObj types.Object
	if as, ok := reads[0].Block.Nodes[reads[0].Idx].(*ast.AssignStmt); ok && len(as.Lhs) >= 1 {
		if id, ok := as.Lhs[0].(*ast.Ident); ok {
			nObj = info.ObjectOf(id)
		}
	}
	adds := fg.Find(func(n ast.Node) bool {
		as, ok := n.(*ast.AssignStmt)
		if !ok || as.Tok != token.ADD_ASSIGN || len(as.Lhs) != 1 || selField(info, as.Lhs[0]) != v.aofsz {
			return false
		}
		id, ok := ast.Unparen(as.Rhs[0]).(*ast.Ident)
		return ok && info.ObjectOf(id) == nObj
	})
	c.check(len(adds) == 1 && fg.Dominates(reads[0], adds[0]) && fg.Dominates(adds[0], v.parse), "read-counted-before-parse", reads[0].Node.Pos(),
		"aofsz += n follows the read and dominates the parse loop", "the bytes read are not added to aofsz before they are parsed: the write offset after start-up is wrong")
	subs := fg.Find(func(n ast.Node) bool {
		as, ok := n.(*ast.AssignStmt)
		return ok && as.Tok == token.SUB_ASSIGN && len(as.Lhs) == 1 && selField(info, as.Lhs[0]) == v.aofsz
	})
	truncs := v.aofCall("Truncate")
	seeks := v.aofCall("Seek")
	if len(subs) != 1 || len(truncs) != 1 || len(seeks) != 1 {
		c.bad("tail-repair", v.fn.Decl.Pos(), "expected one aofsz -= …, one Truncate and one Seek on s.aof in loadAOF; found %d/%d/%d", len(subs), len(truncs), len(seeks))
		return
	}
	sub := subs[0].Node.(*ast.AssignStmt)
	// the amount subtracted is the length of the carry buffer
	lenOK := false
	if call, ok := ast.Unparen(sub.Rhs[0]).(*ast.CallExpr); ok {
		if id, ok := ast.Unparen(call.Fun).(*ast.Ident); ok && id.Name == "len" && len(call.Args) == 1 {
			lenOK = true
		}
	}
	c.check(lenOK, "subtract-remainder-length", sub.Pos(), "aofsz is decreased by len(<carry buffer>)", "aofsz is not decreased by the length of the incomplete remainder")
	c.check(fg.Dominates(subs[0], truncs[0]) && mentionsField(info, truncs[0].Node, v.aofsz), "truncate-at-boundary", truncs[0].Node.Pos(),
		"Truncate(aofsz) is dominated by the store that moves aofsz back to the command boundary", "the file is truncated at an offset that is not the last command boundary")
	c.check(fg.Dominates(truncs[0], seeks[0]) && mentionsField(info, seeks[0].Node, v.aofsz), "seek-after-truncate", seeks[0].Node.Pos(),
		"Seek(aofsz, 0) follows the truncate on every path", "after the truncate the write offset is not moved to the new end: the next append leaves a hole of zero bytes")
	// no normal path from the truncate to a return avoiding the seek
	skip, _ := fg.Reach(PathQuery{From: truncs[0], Target: func(l Loc) bool {
		r, ok := l.Node.(*ast.ReturnStmt)
		return ok && !returnsError(info, v.fn, r)
	}, Avoid: func(l Loc) bool { return l.Block == seeks[0].Block && l.Idx == seeks[0].Idx }})
	c.check(!skip, "truncate-seek-paired", truncs[0].Node.Pos(), "no normal return between Truncate and Seek", "loadAOF can return normally after the truncate without seeking")
	c.check(errReturned(c, info, truncs[0].Node), "truncate-error-returned", truncs[0].Node.Pos(), "the error of Truncate is returned", "the error of Truncate is dropped")
	c.check(errReturned(c, info, seeks[0].Node), "seek-error-returned", seeks[0].Node.Pos(), "the error of Seek is returned", "the error of Seek is dropped")
}

func ruleNulSkip(c *Ctx) {
	v := viewLoadAOF(c)
	if v == nil || !v.parse.Valid() {
		c.und("anchors", 0, "loadAOF or its ReadNextCommand call not found")
		return
	}
	info, fg := v.info, v.fg
	// the data variable: first argument of ReadNextCommand
	call := v.parse.Node.(*ast.CallExpr)
	did, ok := ast.Unparen(call.Args[0]).(*ast.Ident)
	if !ok {
		c.und("data", call.Pos(), "first argument of ReadNextCommand is not a variable")
		return
	}
	dataObj := info.ObjectOf(did)
	isNulTest := func(e ast.Expr) bool {
		hit := false
		ast.Inspect(e, func(n ast.Node) bool {
			be, ok := n.(*ast.BinaryExpr)
			if !ok || be.Op != token.EQL {
				return true
			}
			ix, ok := ast.Unparen(be.X).(*ast.IndexExpr)
			if !ok {
				return true
			}
			id, ok := ast.Unparen(ix.X).(*ast.Ident)
			if !ok || info.ObjectOf(id) != dataObj {
				return true
			}
			i0, ok0 := info.Types[ix.Index]
			v0, ok1 := info.Types[be.Y]
			if ok0 && ok1 && i0.Value != nil && v0.Value != nil && i0.Value.String() == "0" && v0.Value.String() == "0" {
				hit = true
			}
			return true
		})
		return hit
	}
	dom := false
	var testBlock Loc
	for _, f := range fg.DominatingFacts(v.parse) {
		// the whole condition `len(data) > 0 && data[0] == 0` is false on the edge: facts of a false && are not decomposed,
		// so look at the raw condition
		if f.Neg && isNulTest(f.E) {
			dom = true
		}
	}
	if !dom {
		// find the condition block directly
		for _, b := range fg.G.Blocks {
			cond, _ := fg.condOf(b)
			if cond != nil && isNulTest(cond) && fg.BlockDominates(b, v.parse.Block) {
				// parse must not be reachable through the true edge without re-testing
				viaTrue, _ := fg.Reach(PathQuery{From: Loc{b, len(b.Nodes) - 1, nil}, Target: func(l Loc) bool { return l.Block == v.parse.Block && l.Idx == v.parse.Idx },
					EdgeOK: func(from *cfgBlock, si int) bool { return !(from == b && si == 1) },
					Avoid:  func(l Loc) bool { return l.Block == b && l.Idx == len(b.Nodes)-1 }})
				if !viaTrue {
					dom = true
					testBlock = Loc{b, len(b.Nodes) - 1, nil}
				}
			}
		}
	}
	c.check(dom, "parse-after-nul-test", call.Pos(), "ReadNextCommand is only reached through the false edge of data[0] == 0", "ReadNextCommand can be reached with data[0] == 0 untested: zero padding in the log is parsed as a command and start-up fails or loses the tail")
	// the true edge advances data
	adv := false
	for _, l := range fg.Find(func(n ast.Node) bool {
		as, ok := n.(*ast.AssignStmt)
		if !ok || len(as.Lhs) != 1 || len(as.Rhs) != 1 {
			return false
		}
		id, ok := as.Lhs[0].(*ast.Ident)
		if !ok || info.ObjectOf(id) != dataObj {
			return false
		}
		sl, ok := ast.Unparen(as.Rhs[0]).(*ast.SliceExpr)
		if !ok || sl.Low == nil {
			return false
		}
		tv, ok := info.Types[sl.Low]
		return ok && tv.Value != nil && tv.Value.String() == "1"
	}) {
		for _, f := range fg.DominatingFacts(l) {
			if !f.Neg && isNulTest(f.E) {
				adv = true
			}
		}
		if testBlock.Valid() && fg.BlockDominates(testBlock.Block.Succs[0], l.Block) {
			adv = true
		}
	}
	c.check(adv, "nul-advances-data", call.Pos(), "the true edge of the NUL test advances data by one byte", "a NUL byte is detected but not skipped")
}

func ruleCarry(c *Ctx) {
	v := viewLoadAOF(c)
	if v == nil || !v.parse.Valid() {
		c.und("anchors", 0, "loadAOF or its ReadNextCommand call not found")
		return
	}
	info, fg := v.info, v.fg
	call := v.parse.Node.(*ast.CallExpr)
	did, _ := ast.Unparen(call.Args[0]).(*ast.Ident)
	if did == nil {
		c.und("data", call.Pos(), "first argument of ReadNextCommand is not a variable")
		return
	}
	dataObj := info.ObjectOf(did)
	ok := false
	for _, l := range fg.Find(func(n ast.Node) bool {
		as, isAs := n.(*ast.AssignStmt)
		if !isAs || len(as.Rhs) != 1 {
			return false
		}
		ap, isCall := ast.Unparen(as.Rhs[0]).(*ast.CallExpr)
		if !isCall || !ap.Ellipsis.IsValid() || len(ap.Args) != 2 {
			return false
		}
		id, isId := ast.Unparen(ap.Args[1]).(*ast.Ident)
		return isId && info.ObjectOf(id) == dataObj
	}) {
		// after the parse loop, guarded by len(data) > 0
		guard := false
		for _, f := range fg.DominatingFacts(l) {
			be, isBin := ast.Unparen(f.E).(*ast.BinaryExpr)
			zero := false
			if isBin {
				if tv, has := info.Types[be.Y]; has && tv.Value != nil && tv.Value.String() == "0" {
					zero = true
				}
			}
			if isBin && !f.Neg && zero && (be.Op == token.GTR || be.Op == token.NEQ) {
				if lc, isCall := ast.Unparen(be.X).(*ast.CallExpr); isCall && len(lc.Args) == 1 {
					if id, isId := ast.Unparen(lc.Args[0]).(*ast.Ident); isId && info.ObjectOf(id) == dataObj {
						guard = true
					}
				}
			}
		}
		if guard && fg.Dominates(v.parse, l) {
			ok = true
		}
	}
	c.check(ok, "remainder-carried", call.Pos(), "the non-empty remainder is copied to the carry buffer after the parse loop", "the incomplete remainder of a chunk is not carried to the next read: a command split across two reads is lost or the tear is not measured")
}
