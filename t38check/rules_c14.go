package main

import (
	"fmt"
	"go/ast"
	"go/token"
	"go/types"
)

func init() {
	register(&Rule{ID: "R14.deadline-propagation", Props: []string{"C14"}, Floor: 7,
		Text: "reviewed table of the object.New call sites of the server and the provenance of their deadline argument: SET the parsed EX (0 when absent), FSET the replaced object's deadline, EXPIRE the freshly computed one, PERSIST 0, JSET/JDEL 0 (like SET without EX), the clipped copy in pushObject the source object's, the temporary segment object in fenceMatch 0; a site whose provenance class differs from the table, or a new site, is reported",
		Run:  ruleDeadlinePropagation})
	register(&Rule{ID: "R14.sweep-stop", Props: []string{"C14"}, Floor: 5,
		Text: "the expiry index is ordered by deadline first (byExpires compares Expires before ids and is the comparator of Collection.expires), ScanExpires iterates it in ascending order, and the sweepers' callbacks stop (return false) at the first entry whose deadline is in the future and collect every earlier one: never early, and nothing due is skipped",
		Run:  ruleSweepStop})
}

var deadlineTable = map[string]string{
	"cmdSET":     "var:ex",
	"cmdFSET":    "inherit",
	"cmdEXPIRE":  "var:ex",
	"cmdPERSIST": "zero",
	"cmdJset":    "zero",
	"cmdJdel":    "zero",
	"pushObject": "inherit",
	"fenceMatch": "zero",
}

func ruleDeadlinePropagation(c *Ctx) {
	seen := map[string]bool{}
	for _, fn := range c.AllFuncs("internal/server") {
		info := fn.Info()
		i := 0
		ast.Inspect(fn.Decl.Body, func(x ast.Node) bool {
			call, ok := x.(*ast.CallExpr)
			if !ok || !isFunc(callee(info, call), modPath+"/internal/object", "New") || len(call.Args) != 4 {
				return true
			}
			i++
			name := fn.Obj.Name()
			seen[name] = true
			key := fmt.Sprintf("%s→object.New#%d", funcName(fn.Obj), i)
			class := "other:" + exprStr(call.Args[2])
			arg := ast.Unparen(call.Args[2])
			if tv, ok := info.Types[arg]; ok && tv.Value != nil && tv.Value.String() == "0" {
				class = "zero"
			} else if id, ok := arg.(*ast.Ident); ok {
				class = "var:" + id.Name
			} else if cc, ok := arg.(*ast.CallExpr); ok {
				if f := callee(info, cc); f != nil && f.Name() == "Expires" && isMethod(f, modPath+"/internal/object", "Object", "Expires") {
					// the source object must also supply the id or geometry of the new object (same object carried over)
					class = "inherit"
				}
			}
			want, known := deadlineTable[name]
			switch {
			case !known:
				c.bad(key, call.Pos(), "new object.New site in %s (deadline %s) is not in the reviewed deadline-propagation table: decide whether the stored object keeps, moves or drops its deadline", name, class)
			case want != class:
				c.bad(key, call.Pos(), "%s builds its object with deadline provenance %q, the reviewed table says %q: the deadline is lost, resurrected or taken from the wrong object", name, class, want)
			default:
				c.ok(key, call.Pos(), true, "deadline provenance %s as in the reviewed table", class)
			}
			// for var:ex sites: the variable must be assigned from a time computation or parsed option, not constant
			return true
		})
	}
	for name := range deadlineTable {
		if !seen[name] {
			c.ok("table-entry-unused/"+name, 0, false, "no object.New site in %s any more", name)
		}
	}
	// EXPIRE's deadline is computed from now + seconds
	if ex := c.Func("internal/server", "Server", "cmdEXPIRE"); ex != nil {
		info := ex.Info()
		okNow := false
		// the deadline argument of object.New (directly, or the local it was computed into)
		ast.Inspect(ex.Decl.Body, func(x ast.Node) bool {
			call, ok := x.(*ast.CallExpr)
			if !ok || len(call.Args) != 4 || !isFunc(callee(info, call), modPath+"/internal/object", "New") {
				return true
			}
			d := call.Args[2]
			if id, ok := ast.Unparen(d).(*ast.Ident); ok {
				d = resolveLocal(info, ex.Decl.Body, id)
			}
			hasNow, hasNano := false, false
			ast.Inspect(d, func(y ast.Node) bool {
				if cc, ok := y.(*ast.CallExpr); ok {
					if f := callee(info, cc); f != nil {
						if isFunc(f, "time", "Now") {
							hasNow = true
						}
						if f.Name() == "UnixNano" {
							hasNano = true
						}
					}
				}
				return true
			})
			if hasNow && hasNano {
				okNow = true
			}
			return true
		})
		c.check(okNow, "cmdEXPIRE/deadline-from-now", ex.Decl.Pos(), "the new deadline is time.Now().Add(...).UnixNano()", "EXPIRE does not compute its deadline from the current time")
	}
}

func ruleSweepStop(c *Ctx) {
	// (a) comparator of Collection.expires is byExpires
	newFn := c.Func("internal/collection", "", "New")
	be := c.Func("internal/collection", "", "byExpires")
	se := c.Func("internal/collection", "Collection", "ScanExpires")
	if newFn == nil || be == nil || se == nil {
		c.und("anchors", 0, "collection.New, byExpires or ScanExpires not found")
		return
	}
	info := newFn.Info()
	okCmp := false
	ast.Inspect(newFn.Decl.Body, func(x ast.Node) bool {
		kv, ok := x.(*ast.KeyValueExpr)
		if !ok {
			return true
		}
		if id, ok := kv.Key.(*ast.Ident); ok && id.Name == "expires" {
			ast.Inspect(kv.Value, func(y ast.Node) bool {
				if a, ok := y.(*ast.Ident); ok && info.ObjectOf(a) == be.Obj {
					okCmp = true
				}
				return true
			})
		}
		return true
	})
	c.check(okCmp, "expires-comparator", newFn.Decl.Pos(), "Collection.expires is ordered by byExpires", "the expiry index is not ordered by byExpires")
	// (b) byExpires: first test a.Expires() < b.Expires() → true, then > → false
	binfo := be.Info()
	okOrder := false
	if len(be.Decl.Body.List) >= 2 {
		first, ok1 := be.Decl.Body.List[0].(*ast.IfStmt)
		second, ok2 := be.Decl.Body.List[1].(*ast.IfStmt)
		isExp := func(e ast.Expr, param int) bool {
			call, ok := ast.Unparen(e).(*ast.CallExpr)
			if !ok {
				return false
			}
			f := callee(binfo, call)
			if f == nil || f.Name() != "Expires" {
				return false
			}
			s, ok := ast.Unparen(call.Fun).(*ast.SelectorExpr)
			if !ok {
				return false
			}
			id, ok := ast.Unparen(s.X).(*ast.Ident)
			if !ok {
				return false
			}
			ps := be.Decl.Type.Params.List
			var names []*ast.Ident
			for _, p := range ps {
				names = append(names, p.Names...)
			}
			return param < len(names) && binfo.ObjectOf(id) == binfo.ObjectOf(names[param])
		}
		retConst := func(s *ast.IfStmt) byte {
			if len(s.Body.List) == 1 {
				if r, ok := s.Body.List[0].(*ast.ReturnStmt); ok && len(r.Results) == 1 {
					return boolConst(binfo, r.Results[0])
				}
			}
			return '?'
		}
		if ok1 && ok2 {
			c1, k1 := ast.Unparen(first.Cond).(*ast.BinaryExpr)
			c2, k2 := ast.Unparen(second.Cond).(*ast.BinaryExpr)
			if k1 && k2 && c1.Op == token.LSS && isExp(c1.X, 0) && isExp(c1.Y, 1) && retConst(first) == '1' &&
				c2.Op == token.GTR && isExp(c2.X, 0) && isExp(c2.Y, 1) && retConst(second) == '0' {
				okOrder = true
			}
		}
	}
	c.check(okOrder, "byExpires-deadline-first", be.Decl.Pos(), "byExpires orders by deadline before id", "byExpires does not compare deadlines first: the sweeper's early stop would skip due objects")
	// (c) ScanExpires ascending
	sinfo := se.Info()
	expires := c.Field("internal/collection", "Collection", "expires")
	asc := false
	ast.Inspect(se.Decl.Body, func(x ast.Node) bool {
		if call, ok := x.(*ast.CallExpr); ok {
			if s, ok := ast.Unparen(call.Fun).(*ast.SelectorExpr); ok && selField(sinfo, s.X) == expires {
				asc = s.Sel.Name == "Scan" || s.Sel.Name == "Ascend"
			}
		}
		return true
	})
	c.check(asc, "ScanExpires-ascending", se.Decl.Pos(), "ScanExpires iterates the expiry index in ascending order", "ScanExpires does not iterate the expiry index in ascending order")
	// (d) sweepers: whichever functions iterate the expiry indexes (found by the call, not by name)
	hookExpires := c.Field("internal/server", "Server", "hookExpires")
	found := map[string]bool{}
	for _, fn := range c.AllFuncs("internal/server") {
		finfo := fn.Info()
		kind := ""
		ast.Inspect(fn.Decl.Body, func(x ast.Node) bool {
			call, ok := x.(*ast.CallExpr)
			if !ok {
				return true
			}
			if f := callee(finfo, call); f != nil && isMethod(f, colPath, "Collection", "ScanExpires") {
				kind = "objects"
			}
			if se, ok := ast.Unparen(call.Fun).(*ast.SelectorExpr); ok && selField(finfo, se.X) == hookExpires && (se.Sel.Name == "Ascend" || se.Sel.Name == "Scan") {
				kind = "hooks"
			}
			return true
		})
		if kind == "" {
			continue
		}
		found[kind] = true
		name := "sweep-" + kind
		var nowObj types.Object
		for _, p := range fn.Decl.Type.Params.List {
			for _, n := range p.Names {
				if isNamedType(finfo.ObjectOf(n).Type(), "time", "Time") {
					nowObj = finfo.ObjectOf(n)
				}
			}
		}
		if nowObj == nil {
			// a local `now := time.Now()`
			ast.Inspect(fn.Decl.Body, func(x ast.Node) bool {
				if as, ok := x.(*ast.AssignStmt); ok && len(as.Lhs) == 1 && len(as.Rhs) == 1 {
					if call, ok := ast.Unparen(as.Rhs[0]).(*ast.CallExpr); ok && isFunc(callee(finfo, call), "time", "Now") {
						if id, ok := as.Lhs[0].(*ast.Ident); ok {
							nowObj = finfo.ObjectOf(id)
						}
					}
				}
				return true
			})
		}
		done := false
		ast.Inspect(fn.Decl.Body, func(x ast.Node) bool {
			lit, ok := x.(*ast.FuncLit)
			if !ok || done {
				return true
			}
			// the innermost callback with a bool result that appends to msgs
			appends := false
			inspectNoLit(lit.Body, func(y ast.Node) bool {
				if call, ok := y.(*ast.CallExpr); ok {
					if id, ok := ast.Unparen(call.Fun).(*ast.Ident); ok && id.Name == "append" {
						appends = true
					}
				}
				return true
			})
			if !appends {
				return true
			}
			done = true
			lfg := newFlowGraph(finfo, lit.Body)
			// the stop test: a condition comparing the deadline with now whose true edge returns false
			okStop, okCollect := false, false
			for _, b := range lfg.G.Blocks {
				cond, _ := lfg.condOf(b)
				if cond == nil {
					continue
				}
				// the test compares an entry's deadline with now; in whichever form it is written, one successor
				// is the "deadline still in the future" side and the other the "due" side
				recognised, futureOnTrue := false, false
				isExpiresCall := func(x ast.Expr) bool {
					call, ok := ast.Unparen(x).(*ast.CallExpr)
					if !ok {
						return false
					}
					f := callee(finfo, call)
					return f != nil && f.Name() == "Expires"
				}
				switch e := ast.Unparen(cond).(type) {
				case *ast.BinaryExpr:
					switch {
					case (e.Op == token.LSS || e.Op == token.LEQ) && isExpiresCall(e.Y) && derivedFrom(finfo, fn, e.X, nowObj):
						// now < deadline (future) / now <= deadline (future)
						recognised, futureOnTrue = true, true
					case (e.Op == token.GTR || e.Op == token.GEQ) && isExpiresCall(e.X) && derivedFrom(finfo, fn, e.Y, nowObj):
						// deadline > now
						recognised, futureOnTrue = true, true
					case (e.Op == token.LEQ || e.Op == token.LSS) && isExpiresCall(e.X) && derivedFrom(finfo, fn, e.Y, nowObj):
						// deadline <= now: due
						recognised, futureOnTrue = true, false
					case (e.Op == token.GEQ || e.Op == token.GTR) && isExpiresCall(e.Y) && derivedFrom(finfo, fn, e.X, nowObj):
						// now >= deadline: due
						recognised, futureOnTrue = true, false
					}
				case *ast.CallExpr:
					// h.expires.After(now): future; h.expires.Before(now): due
					if f := callee(finfo, e); f != nil && len(e.Args) == 1 && derivedFrom(finfo, fn, e.Args[0], nowObj) {
						switch f.Name() {
						case "After":
							recognised, futureOnTrue = true, true
						case "Before":
							recognised, futureOnTrue = true, false
						}
					}
				}
				if !recognised {
					continue
				}
				futureSucc, dueSucc := b.Succs[0], b.Succs[1]
				if !futureOnTrue {
					futureSucc, dueSucc = dueSucc, futureSucc
				}
				isAppend := func(l Loc) bool {
					call, ok := l.Node.(*ast.CallExpr)
					if !ok {
						return false
					}
					id, ok := ast.Unparen(call.Fun).(*ast.Ident)
					return ok && id.Name == "append"
				}
				isContinue := func(l Loc) bool {
					r, ok := l.Node.(*ast.ReturnStmt)
					return ok && (len(r.Results) != 1 || boolConst(finfo, r.Results[0]) != '0')
				}
				// future side: nothing is collected and the scan stops (every return is `false`)
				collectsFuture, _ := reachBlockAvoiding2(lfg, futureSucc, isAppend)
				continuesFuture, _ := reachBlockAvoiding2(lfg, futureSucc, isContinue)
				okStop = !collectsFuture && !continuesFuture
				// due side: the entry is collected
				reach, _ := reachBlockAvoiding2(lfg, dueSucc, isAppend)
				okCollect = reach
			}
			c.check(okStop && okCollect, name+"/stop-at-first-future-deadline", lit.Pos(),
				"the callback returns false at the first deadline in the future and collects every earlier entry", "the sweeper's callback does not stop at the first future deadline / does not collect due entries: objects expire early or never")
			return true
		})
		if !done {
			c.bad(name+"/callback", fn.Decl.Pos(), "the function that iterates the expiry index has no collecting callback")
		}
	}
	for _, k := range []string{"objects", "hooks"} {
		if !found[k] {
			c.bad("sweep-"+k+"/present", 0, "no function iterates the expiry index of %s: nothing expires", k)
		}
	}
}

// derivedFrom: e is the identifier obj, or a local assigned once from an expression mentioning obj.
func derivedFrom(info *types.Info, fn *FuncInfo, e ast.Expr, obj types.Object) bool {
	mentions := func(x ast.Expr) bool {
		hit := false
		ast.Inspect(x, func(n ast.Node) bool {
			if id, ok := n.(*ast.Ident); ok && info.ObjectOf(id) == obj {
				hit = true
			}
			return true
		})
		return hit
	}
	if mentions(e) {
		return true
	}
	id, ok := ast.Unparen(e).(*ast.Ident)
	if !ok {
		return false
	}
	res := false
	ast.Inspect(fn.Decl.Body, func(n ast.Node) bool {
		if as, ok := n.(*ast.AssignStmt); ok && len(as.Lhs) == len(as.Rhs) {
			for i, l := range as.Lhs {
				if lid, ok := l.(*ast.Ident); ok && info.ObjectOf(lid) == info.ObjectOf(id) && mentions(as.Rhs[i]) {
					res = true
				}
			}
		}
		return true
	})
	return res
}
