package main

import (
	"fmt"
	"go/ast"
	"go/token"
	"go/types"
)

func init() {
	register(&Rule{ID: "R14.deadline-propagation", Props: []string{"C14"}, Floor: 7,
		Text: "reviewed table of the object.New call sites of the server and the provenance of their deadline argument: SET the parsed EX (0 when absent), FSET the replaced object's deadline, EXPIRE the freshly computed one, PERSIST 0, JSET/JDEL 0 (like SET without EX), the clipped copy in pushObject the source object's, the temporary segment object in fenceMatch 0; a site whose provenance class differs from the table, or a new site, is reported",
		Run:  ruleDeadlinePropagation})
	register(&Rule{ID: "R14.sweep-stop", Props: []string{"C14"}, Floor: 5,
		Text: "the expiry index is ordered by deadline first (byExpires compares Expires before ids and is the comparator of Collection.expires), ScanExpires iterates it in ascending order, and the sweepers' callbacks stop (return false) at the first entry whose deadline is in the future and collect every earlier one: never early, and nothing due is skipped",
		Run:  ruleSweepStop})
}

var deadlineTable = map[string]string{
	"cmdSET":     "var:ex",
	"cmdFSET":    "inherit",
	"cmdEXPIRE":  "var:ex",
	"cmdPERSIST": "zero",
	"cmdJset":    "zero",
	"cmdJdel":    "zero",
	"pushObject": "inherit",
	"fenceMatch": "zero",
}

func ruleDeadlinePropagation(c *Ctx) {
	seen := map[string]bool{}
	for _, fn := range c.AllFuncs("internal/server") {
		info := fn.Info()
		i := 0
		ast.Inspect(fn.Decl.Body, func(x ast.Node) bool {
			call, ok := x.(*ast.CallExpr)
			if !ok || !isFunc(callee(info, call), modPath+"/internal/object", "New") || len(call.Args) != 4 {
				return true
			}
			i++
			name := fn.Obj.Name()
			seen[name] = true
			key := fmt.Sprintf("%s→object.New#%d", funcName(fn.Obj), i)
			class := "other:" + exprStr(call.Args[2])
			arg := ast.Unparen(call.Args[2])
			if tv, ok := info.Types[arg]; ok && tv.Value != nil && tv.Value.String() == "0" {
				class = "zero"
			} else if id, ok := arg.(*ast.Ident); ok {
				class = "var:" + id.Name
			} else if cc, ok := arg.(*ast.CallExpr); ok {
				if f := callee(info, cc); f != nil && f.Name() == "Expires" && isMethod(f, modPath+"/internal/object", "Object", "Expires") {
					// the source object must also supply the id or geometry of the new object (same object carried over)
					class = "inherit"
				}
			}
			want, known := deadlineTable[name]
			if !known {
				// a helper that only reviewed functions of one provenance class call is part of them
				var seeds []string
				for tn, tc := range deadlineTable {
					if tc == class {
						seeds = append(seeds, tn)
					}
				}
				if len(seeds) > 0 && c.calledOnlyFrom(seeds...)[fn.Obj] {
					c.ok(key, call.Pos(), true, "deadline provenance %s, in a helper called only from reviewed functions of that provenance", class)
					return true
				}
			}
			switch {
			case !known:
				c.bad(key, call.Pos(), "new object.New site in %s (deadline %s) is not in the reviewed deadline-propagation table: decide whether the stored object keeps, moves or drops its deadline", name, class)
			case want != class:
				c.bad(key, call.Pos(), "%s builds its object with deadline provenance %q, the reviewed table says %q: the deadline is lost, resurrected or taken from the wrong object", name, class, want)
			default:
				c.ok(key, call.Pos(), true, "deadline provenance %s as in the reviewed table", class)
			}
			// for var:ex sites: the variable must be assigned from a time computation or parsed option, not constant
			return true
		})
	}
	for name := range deadlineTable {
		if !seen[name] {
			c.ok("table-entry-unused/"+name, 0, false, "no object.New site in %s any more", name)
		}
	}
	// EXPIRE's deadline is computed from now + seconds
	if ex := c.Func("internal/server", "Server", "cmdEXPIRE"); ex != nil {
		info := ex.Info()
		okNow := false
		// the deadline argument of object.New (directly, or the local it was computed into)
		ast.Inspect(ex.Decl.Body, func(x ast.Node) bool {
			call, ok := x.(*ast.CallExpr)
			if !ok || len(call.Args) != 4 || !isFunc(callee(info, call), modPath+"/internal/object", "New") {
				return true
			}
			d := call.Args[2]
			if id, ok := ast.Unparen(d).(*ast.Ident); ok {
				d = resolveLocal(info, ex.Decl.Body, id)
			}
			hasNow, hasNano := false, false
			ast.Inspect(d, func(y ast.Node) bool {
				if cc, ok := y.(*ast.CallExpr); ok {
					if f := callee(info, cc); f != nil {
						if isFunc(f, "time", "Now") {
							hasNow = true
						}
						if f.Name() == "UnixNano" {
							hasNano = true
						}
					}
				}
				return true
			})
			if hasNow && hasNano {
				okNow = true
			}
			return true
		})
		c.check(okNow, "cmdEXPIRE/deadline-from-now", ex.Decl.Pos(), "the new deadline is time.Now().Add(...).UnixNano()", "EXPIRE does not compute its deadline from the current time")
	}
}

func ruleSweepStop(c *Ctx) {
	// (a) comparator of Collection.expires is byExpires
	newFn := c.Func("internal/collection", "", "New")
	be := c.Func("internal/collection", "", "byExpires")
	se := c.Func("internal/collection", "Collection", "ScanExpires")
	if newFn == nil || be == nil || se == nil {
		c.und("anchors", 0, "collection.New, byExpires or ScanExpires not found")
		return
	}
	info := newFn.Info()
	okCmp := false
	ast.Inspect(newFn.Decl.Body, func(x ast.Node) bool {
		kv, ok := x.(*ast.KeyValueExpr)
		if !ok {
			return true
		}
		if id, ok := kv.Key.(*ast.Ident); ok && id.Name == "expires" {
			ast.Inspect(kv.Value, func(y ast.Node) bool {
				if a, ok := y.(*ast.Ident); ok && info.ObjectOf(a) == be.Obj {
					okCmp = true
				}
				return true
			})
		}
		return true
	})
	c.check(okCmp, "expires-comparator", newFn.Decl.Pos(), "Collection.expires is ordered by byExpires", "the expiry index is not ordered by byExpires")
	// (b) byExpires: first test a.Expires() < b.Expires() → true, then > → false
	binfo := be.Info()
	okOrder := false
	if len(be.Decl.Body.List) >= 2 {
		first, ok1 := be.Decl.Body.List[0].(*ast.IfStmt)
		second, ok2 := be.Decl.Body.List[1].(*ast.IfStmt)
		isExp := func(e ast.Expr, param int) bool {
			call, ok := ast.Unparen(e).(*ast.CallExpr)
			if !ok {
				return false
			}
			f := callee(binfo, call)
			if f == nil || f.Name() != "Expires" {
				return false
			}
			s, ok := ast.Unparen(call.Fun).(*ast.SelectorExpr)
			if !ok {
				return false
			}
			id, ok := ast.Unparen(s.X).(*ast.Ident)
			if !ok {
				return false
			}
			ps := be.Decl.Type.Params.List
			var names []*ast.Ident
			for _, p := range ps {
				names = append(names, p.Names...)
			}
			return param < len(names) && binfo.ObjectOf(id) == binfo.ObjectOf(names[param])
		}
		retConst := func(s *ast.IfStmt) byte {
			if len(s.Body.List) == 1 {
				if r, ok := s.Body.List[0].(*ast.ReturnStmt); ok && len(r.Results) == 1 {
					return boolConst(binfo, r.Results[0])
				}
			}
			return '?'
		}
		if ok1 && ok2 {
			c1, k1 := ast.Unparen(first.Cond).(*ast.BinaryExpr)
			c2, k2 := ast.Unparen(second.Cond).(*ast.BinaryExpr)
			if k1 && k2 && c1.Op == token.LSS && isExp(c1.X, 0) && isExp(c1.Y, 1) && retConst(first) == '1' &&
				c2.Op == token.GTR && isExp(c2.X, 0) && isExp(c2.Y, 1) && retConst(second) == '0' {
				okOrder = true
			}
		}
	}
	c.check(okOrder, "byExpires-deadline-first", be.Decl.Pos(), "byExpires orders by deadline before id", "byExpires does not compare deadlines first: the sweeper's early stop would skip due objects")
	// (c) ScanExpires ascending
	sinfo := se.Info()
	expires := c.Field("internal/collection", "Collection", "expires")
	asc := false
	var iterObj types.Object
	ast.Inspect(se.Decl.Body, func(x ast.Node) bool {
		if call, ok := x.(*ast.CallExpr); ok {
			if s, ok := ast.Unparen(call.Fun).(*ast.SelectorExpr); ok && selField(sinfo, s.X) == expires {
				asc = s.Sel.Name == "Scan" || s.Sel.Name == "Ascend"
				if s.Sel.Name == "Iter" {
					// it := c.expires.Iter(): the direction is decided by how the iterator is driven
					if as, ok := c.Parent(call).(*ast.AssignStmt); ok && len(as.Lhs) == 1 {
						if id, ok := as.Lhs[0].(*ast.Ident); ok {
							iterObj = sinfo.ObjectOf(id)
						}
					}
				}
			}
		}
		return true
	})
	if iterObj != nil {
		used := map[string]bool{}
		ast.Inspect(se.Decl.Body, func(x ast.Node) bool {
			if call, ok := x.(*ast.CallExpr); ok {
				if s, ok := ast.Unparen(call.Fun).(*ast.SelectorExpr); ok {
					if id, ok := ast.Unparen(s.X).(*ast.Ident); ok && sinfo.ObjectOf(id) == iterObj {
						used[s.Sel.Name] = true
					}
				}
			}
			return true
		})
		asc = used["First"] && used["Next"] && !used["Last"] && !used["Prev"] && !used["Seek"]
	}
	c.check(asc, "ScanExpires-ascending", se.Decl.Pos(), "ScanExpires iterates the expiry index in ascending order", "ScanExpires does not iterate the expiry index in ascending order")
	// (d) sweepers: whichever functions iterate the expiry indexes (found by the call, not by name)
	hookExpires := c.Field("internal/server", "Server", "hookExpires")
	found := map[string]bool{}
	for _, fn := range c.AllFuncs("internal/server") {
		finfo := fn.Info()
		kind := ""
		ast.Inspect(fn.Decl.Body, func(x ast.Node) bool {
			call, ok := x.(*ast.CallExpr)
			if !ok {
				return true
			}
			if f := callee(finfo, call); f != nil && isMethod(f, colPath, "Collection", "ScanExpires") {
				kind = "objects"
			}
			if se, ok := ast.Unparen(call.Fun).(*ast.SelectorExpr); ok && selField(finfo, se.X) == hookExpires && (se.Sel.Name == "Ascend" || se.Sel.Name == "Scan") {
				kind = "hooks"
			}
			return true
		})
		if kind == "" {
			continue
		}
		found[kind] = true
		name := "sweep-" + kind
		var nowObj types.Object
		for _, p := range fn.Decl.Type.Params.List {
			for _, n := range p.Names {
				if isNamedType(finfo.ObjectOf(n).Type(), "time", "Time") {
					nowObj = finfo.ObjectOf(n)
				}
			}
		}
		if nowObj == nil {
			// a local `now := time.Now()`
			ast.Inspect(fn.Decl.Body, func(x ast.Node) bool {
				if as, ok := x.(*ast.AssignStmt); ok && len(as.Lhs) == 1 && len(as.Rhs) == 1 {
					if call, ok := ast.Unparen(as.Rhs[0]).(*ast.CallExpr); ok && isFunc(callee(finfo, call), "time", "Now") {
						if id, ok := as.Lhs[0].(*ast.Ident); ok {
							nowObj = finfo.ObjectOf(id)
						}
					}
				}
				return true
			})
		}
		done := false
		ast.Inspect(fn.Decl.Body, func(x ast.Node) bool {
			lit, ok := x.(*ast.FuncLit)
			if !ok || done {
				return true
			}
			// the innermost callback with a bool result that appends to msgs
			appends := false
			inspectNoLit(lit.Body, func(y ast.Node) bool {
				if call, ok := y.(*ast.CallExpr); ok {
					if id, ok := ast.Unparen(call.Fun).(*ast.Ident); ok && id.Name == "append" {
						appends = true
					}
				}
				return true
			})
			if !appends {
				return true
			}
			done = true
			lfg := newFlowGraph(finfo, lit.Body)
			// the stop test, as a scenario: the atom "this entry's deadline is in the future" is any comparison of
			// an Expires() value with a value derived from now (or h.expires.After/Before(now)), wherever it stands
			// in a condition. With the atom true no entry is collected and the scan is not continued; with the atom
			// false the entry can be collected.
			isExpiresCall := func(x ast.Expr) bool {
				call, ok := ast.Unparen(x).(*ast.CallExpr)
				if !ok {
					return false
				}
				f := callee(finfo, call)
				return f != nil && f.Name() == "Expires"
			}
			// futureAtom: 'T' the expression means "deadline in the future", 'F' it means "due", 0 not the test
			futureAtom := func(x ast.Expr) byte {
				switch e := ast.Unparen(x).(type) {
				case *ast.BinaryExpr:
					switch {
					case (e.Op == token.LSS || e.Op == token.LEQ) && isExpiresCall(e.Y) && derivedFrom(finfo, fn, e.X, nowObj):
						return 'T'
					case (e.Op == token.GTR || e.Op == token.GEQ) && isExpiresCall(e.X) && derivedFrom(finfo, fn, e.Y, nowObj):
						return 'T'
					case (e.Op == token.LEQ || e.Op == token.LSS) && isExpiresCall(e.X) && derivedFrom(finfo, fn, e.Y, nowObj):
						return 'F'
					case (e.Op == token.GEQ || e.Op == token.GTR) && isExpiresCall(e.Y) && derivedFrom(finfo, fn, e.X, nowObj):
						return 'F'
					}
				case *ast.CallExpr:
					if f := callee(finfo, e); f != nil && len(e.Args) == 1 && derivedFrom(finfo, fn, e.Args[0], nowObj) {
						switch f.Name() {
						case "After":
							return 'T'
						case "Before":
							return 'F'
						}
					}
				}
				return 0
			}
			hasAtom := false
			ast.Inspect(lit.Body, func(y ast.Node) bool {
				if e, ok := y.(ast.Expr); ok && futureAtom(e) != 0 {
					hasAtom = true
				}
				return true
			})
			scen := func(future bool) func(e ast.Expr) byte {
				return func(e ast.Expr) byte {
					switch futureAtom(e) {
					case 'T':
						if future {
							return '1'
						}
						return '0'
					case 'F':
						if future {
							return '0'
						}
						return '1'
					}
					return '?'
				}
			}
			isAppendNode := func(l Loc) bool {
				hit := false
				inspectNoLit(l.Node, func(y ast.Node) bool {
					if call, ok := y.(*ast.CallExpr); ok {
						if id, ok := ast.Unparen(call.Fun).(*ast.Ident); ok && id.Name == "append" {
							hit = true
						}
					}
					return true
				})
				return hit
			}
			isContinue := func(l Loc) bool {
				r, ok := l.Node.(*ast.ReturnStmt)
				if !ok {
					return false
				}
				if len(r.Results) != 1 {
					return true
				}
				// `return expired`: the value the flag has on this path (facts carried by the search)
				return lfg.eval3(r.Results[0], lfg.curFacts) != '0'
			}
			okStop, okCollect := false, false
			if hasAtom {
				collectsFuture, _ := lfg.Reach(PathQuery{Correlate: true, Atom: scen(true), Target: isAppendNode})
				continuesFuture, _ := lfg.Reach(PathQuery{Correlate: true, Atom: scen(true), Target: isContinue})
				okStop = !collectsFuture && !continuesFuture
				okCollect, _ = lfg.Reach(PathQuery{Correlate: true, Atom: scen(false), Target: isAppendNode})
			}
			c.check(okStop && okCollect, name+"/stop-at-first-future-deadline", lit.Pos(),
				"the callback returns false at the first deadline in the future and collects every earlier entry", "the sweeper's callback does not stop at the first future deadline / does not collect due entries: objects expire early or never")
			return true
		})
		if !done {
			c.bad(name+"/callback", fn.Decl.Pos(), "the function that iterates the expiry index has no collecting callback")
		}
		// the stop at the first future deadline ends the scan of that one expiry index; the walk over the other
		// collections goes on: the callback that contains the expiry scan (the one handed to the keyspace scan)
		// does not return a value that depends on the expiry scan's result
		if kind == "objects" {
			ast.Inspect(fn.Decl.Body, func(x ast.Node) bool {
				outer, ok := x.(*ast.FuncLit)
				if !ok {
					return true
				}
				// directly contains (not inside a nested literal... the nested literal is the argument) a ScanExpires call
				var scan *ast.CallExpr
				ast.Inspect(outer.Body, func(y ast.Node) bool {
					if call, ok := y.(*ast.CallExpr); ok {
						if f := callee(finfo, call); f != nil && isMethod(f, colPath, "Collection", "ScanExpires") && enclosingFuncLit(c.Program, call) == outer {
							scan = call
						}
					}
					return true
				})
				if scan == nil || outer.Type.Results == nil || len(outer.Type.Results.List) != 1 {
					return true
				}
				// locals that receive the scan's result
				fromScan := map[types.Object]bool{}
				inspectNoLit(outer.Body, func(y ast.Node) bool {
					if as, ok := y.(*ast.AssignStmt); ok && len(as.Rhs) == 1 && containsNode(as.Rhs[0], scan) {
						for _, l := range as.Lhs {
							if id, ok := ast.Unparen(l).(*ast.Ident); ok {
								fromScan[finfo.ObjectOf(id)] = true
							}
						}
					}
					return true
				})
				var badRet *ast.ReturnStmt
				inspectNoLit(outer.Body, func(y ast.Node) bool {
					r, ok := y.(*ast.ReturnStmt)
					if !ok {
						return true
					}
					for _, res := range r.Results {
						dep := containsNode(res, scan)
						ast.Inspect(res, func(z ast.Node) bool {
							if _, isLit := z.(*ast.FuncLit); isLit {
								return false
							}
							if id, ok := z.(*ast.Ident); ok && fromScan[finfo.ObjectOf(id)] {
								dep = true
							}
							return true
						})
						if dep {
							badRet = r
						}
					}
					return true
				})
				if badRet != nil {
					c.bad(name+"/walk-continues", badRet.Pos(), "the walk over the collections is continued or stopped by the result of one collection's expiry scan, which is false as soon as that collection's next deadline lies in the future: a collection with a far deadline shields every collection after it from the sweeper, and their objects never expire")
				} else {
					c.ok(name+"/walk-continues", outer.Pos(), true, "whether the walk over the collections goes on does not depend on one collection's expiry scan")
				}
				return true
			})
		}
	}
	for _, k := range []string{"objects", "hooks"} {
		if !found[k] {
			c.bad("sweep-"+k+"/present", 0, "no function iterates the expiry index of %s: nothing expires", k)
		}
	}
}

// derivedFrom: e is the identifier obj, or a local assigned once from an expression mentioning obj.
func derivedFrom(info *types.Info, fn *FuncInfo, e ast.Expr, obj types.Object) bool {
	mentions := func(x ast.Expr) bool {
		hit := false
		ast.Inspect(x, func(n ast.Node) bool {
			if id, ok := n.(*ast.Ident); ok && info.ObjectOf(id) == obj {
				hit = true
			}
			return true
		})
		return hit
	}
	if mentions(e) {
		return true
	}
	id, ok := ast.Unparen(e).(*ast.Ident)
	if !ok {
		return false
	}
	res := false
	ast.Inspect(fn.Decl.Body, func(n ast.Node) bool {
		if as, ok := n.(*ast.AssignStmt); ok && len(as.Lhs) == len(as.Rhs) {
			for i, l := range as.Lhs {
				if lid, ok := l.(*ast.Ident); ok && info.ObjectOf(lid) == info.ObjectOf(id) && mentions(as.Rhs[i]) {
					res = true
				}
			}
		}
		return true
	})
	return res
}

func init() {
	register(&Rule{ID: "R14.visibility-by-sweeper-only", Props: []string{"C19", "C01"}, Floor: 40,
		Text: "whether a stored object is visible is decided by the indexes alone: in every command handler and the functions it reaches (internal/server), no branch condition depends on both the wall clock and an object's deadline (Object.Expires(), directly or through locals) — an object past its deadline stays visible to every access path until the sweeper removes it with a logged DEL, so GET, SCAN, COUNT, STATS and the searches agree at every instant (C19) and nothing disappears before its logged delete (C14). The sweeper (the functions that walk the expiry index) is the one place that compares the two",
		Run:  ruleVisibilityBySweeper})
}

func ruleVisibilityBySweeper(c *Ctx) {
	a := c.muLK()
	if a.err != "" {
		c.und("engine", 0, "%s", a.err)
		return
	}
	ct := a.ct
	seen := map[*Unit]bool{}
	var units []*Unit
	for _, cl := range ct.DT.Clauses {
		for _, h := range ct.Handlers[cl] {
			if u := a.lk.ofDecl[h]; u != nil {
				for _, x := range a.lk.reachSync(u) {
					if !seen[x] && x.Fn.Pkg.PkgPath == modPath+"/internal/server" {
						seen[x] = true
						units = append(units, x)
					}
				}
			}
		}
	}
	isClock := func(info *types.Info, n ast.Node) bool {
		hit := false
		ast.Inspect(n, func(x ast.Node) bool {
			if call, ok := x.(*ast.CallExpr); ok {
				f := callee(info, call)
				if isFunc(f, "time", "Now") || isFunc(f, "time", "Since") || isFunc(f, "time", "Until") {
					hit = true
				}
			}
			return true
		})
		return hit
	}
	isDeadline := func(info *types.Info, n ast.Node) bool {
		hit := false
		ast.Inspect(n, func(x ast.Node) bool {
			if call, ok := x.(*ast.CallExpr); ok {
				if f := callee(info, call); f != nil && f.Name() == "Expires" && isMethod(f, modPath+"/internal/object", "Object", "Expires") {
					hit = true
				}
			}
			return true
		})
		return hit
	}
	n := 0
	done := map[*FuncInfo]bool{}
	for _, u := range units {
		if done[u.Fn] {
			continue
		}
		done[u.Fn] = true
		info := u.Info()
		// the sweeper: walks the expiry index
		sweeper := false
		ast.Inspect(u.Fn.Decl.Body, func(x ast.Node) bool {
			if call, ok := x.(*ast.CallExpr); ok {
				if f := callee(info, call); f != nil && f.Name() == "ScanExpires" {
					sweeper = true
				}
			}
			return true
		})
		if sweeper {
			continue
		}
		taint := func(src func(*types.Info, ast.Node) bool) (map[types.Object]bool, func(ast.Node) bool) {
			t := map[types.Object]bool{}
			mentions := func(n ast.Node) bool {
				if src(info, n) {
					return true
				}
				hit := false
				ast.Inspect(n, func(x ast.Node) bool {
					if id, ok := x.(*ast.Ident); ok && t[info.ObjectOf(id)] {
						hit = true
					}
					return true
				})
				return hit
			}
			for changed := true; changed; {
				changed = false
				ast.Inspect(u.Fn.Decl.Body, func(x ast.Node) bool {
					as, ok := x.(*ast.AssignStmt)
					if !ok || len(as.Lhs) != len(as.Rhs) {
						return true
					}
					for i, l := range as.Lhs {
						if id, ok := l.(*ast.Ident); ok {
							if o := info.ObjectOf(id); o != nil && !t[o] && mentions(as.Rhs[i]) {
								t[o] = true
								changed = true
							}
						}
					}
					return true
				})
			}
			return t, mentions
		}
		_, clock := taint(isClock)
		_, deadline := taint(isDeadline)
		n++
		bad := 0
		ast.Inspect(u.Fn.Decl.Body, func(x ast.Node) bool {
			var cond ast.Expr
			switch s := x.(type) {
			case *ast.IfStmt:
				cond = s.Cond
			case *ast.ForStmt:
				cond = s.Cond
			case *ast.SwitchStmt:
				cond = s.Tag
			case *ast.CaseClause:
				for _, e := range s.List {
					if clock(e) && deadline(e) {
						cond = e
					}
				}
			}
			if cond != nil && clock(cond) && deadline(cond) {
				bad++
				c.bad(funcName(u.Fn.Obj)+"→if "+exprStr(cond), cond.Pos(), "a command handler compares the wall clock with an object's deadline (%s): the object is treated as gone by this path while the indexes, counters and every other access path still hold it until the sweeper's logged DEL — the access paths disagree, and what a command sees depends on the instant it runs", exprStr(cond))
			}
			return true
		})
		if bad == 0 {
			c.ok(funcName(u.Fn.Obj), u.Fn.Decl.Pos(), false, "no branch condition relates the clock to an object's deadline")
		}
	}
	c.stat("handler_functions_scanned", n)
}
