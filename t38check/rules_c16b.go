package main

import (
	"fmt"
	"go/ast"
	"go/types"
	"strings"
)

func init() {
	register(&Rule{ID: "R16.bounds", Props: []string{"C16"}, Floor: 150,
		Text: "every index x[i] and slice x[a:b] on a string, []string, []byte, [][]byte or array value in internal/server and internal/glob (the client argument vectors, their tokens, the protocol buffers) is within bounds on every path: a zone abstract interpretation over go/cfg (integer locals and len(path) terms, guards from conditions, switch len(...), range, strings.HasPrefix, s != \"\", short-circuit operators; shifts for i++, vs = vs[1:]; widening) entails 0 <= i < len(x), respectively 0 <= a <= b <= len(x); reviewed exemptions name one construct each",
		Run:  ruleBounds})
}

// Reviewed exemptions. Two kinds, each with its reason:
//   - a unit (function or literal) that only indexes data the server built itself
//     (not bytes or arguments supplied by a client);
//   - one construct whose safety depends on a fact outside the zone domain.
//
// Anything else that the analysis cannot prove is reported.
var boundsExemptUnits = map[string]string{
	"server.(*LegacyAOFReader).ReadCommand":            "migration reader for the pre-1.0 log format: reads a local file once at start-up (migrateAOF), not client input; its offsets are sums of three variables, outside the zone domain",
	"server.(*Hook).proc":                              "keys/vals/ttls are parallel slices this function fills itself from the queue database (appended pairwise in one callback), never client bytes",
	"server.(*Hook).proc$cb:Update#2":                  "re-insert callback of Hook.proc over the same parallel slices",
	"server.(*Server).aofshrink":                       "keys is the batch of collection names this function collected itself; it is indexed only while len(keys) > 0 (loop structure across function literals)",
	"server.(*Server).aofshrink$cb:ScanGreaterOrEqual": "object callback of aofshrink, same batch of names",
	"server.sortMsgs$cb:SliceStable":                   "comparison callback of sort.SliceStable: i and j are valid indexes by the library contract",
	"server.newGroupItem":                              "writes into a buffer it allocated with the exact total length (sum of four lengths: outside the zone domain)",
	"server.(*pubsub).register":                        "hubs is a two-element array indexed by the internal subscription kind (pubsubChannel=0, pubsubPattern=1)",
	"server.(*pubsub).unregister":                      "hubs is a two-element array indexed by the internal subscription kind",
	"server.Serve$defer":                               "debug stack dump inside `if false`",
}

var boundsExempt = map[string]string{
	"server.(*Server).liveSubscription→m[kind]":             "two-element array indexed by the internal subscription kind constant",
	"server.(*Server).liveSubscription→m[kind]#2":           "two-element array indexed by the internal subscription kind constant",
	"server.(*Server).loadAOF$defer→suf[0]":                 "suf is a five-element literal that the loop shortens only while len(suf) > 1",
	"server.(*lStatePool).New$call→args[0]":                 "tile38.call with no arguments panics here, but the closure only runs inside gopher-lua's PCall, which recovers Go panics into a script error (the script fails, the server does not)",
	"server.(*lStatePool).New$call→args[1:]":                "same closure: evaluated after args[0]",
	"server.(*lStatePool).New$pcall→args[0]":                "tile38.pcall, as for tile38.call: runs under PCall's recover",
	"server.(*lStatePool).New$pcall→args[1:]":               "same closure: evaluated after args[0]",
	"server.baseToNumber→str[2:]":                           "guarded by HasPrefix(ToLower(str), \"0x\"): only ASCII '0','x','X' lower-case to \"0x\", so str has these two bytes; also runs under PCall's recover",
	"server.extendRoamMessage→baseMsg[:len(baseMsg) - 1]":   "baseMsg is a fence message assembled by makemsg (always ends in '}'), not client bytes",
	"server.fenceMatch→res[1:]#3":                           "res is the non-empty output of scanWriter.writeObject for one object (checked by sw.wr.Len() != 0 above), not client bytes",
	"server.fenceMatch→res[1:]#4":                           "as above",
	"server.getFieldValue→name[len(\"properties\") + 1:]":   "guarded by isPathKey(name, \"properties\") && name != \"properties\": a proper extension of the prefix is longer than it (string inequality, outside the zone domain)",
	"server.isPathKey→s[len(key)]":                          "evaluated only when HasPrefix(s, key) && s != key, i.e. len(s) > len(key) (string inequality, outside the zone domain)",
	"server.mvtFilterHTTPArgs→parts[3][:len(parts[3]) - 4]": "called only for paths with the suffix .mvt or .pbf (handleInputCommand); the suffix contains no '/', so it lies in the last of the four segments",
	"server.readNextHTTPCommand→headers[0]":                 "the caller (readNextCommand) found a complete first line ending in ' HTTP/x.y\\r\\n', so the first readcrlfline yields a non-empty request line before any empty line",
	"server.readNextHTTPCommand→headers[1:]":                "as above: headers has at least the request line",
	"server.uint64ToString→s[len(s) - 20:]":                 "s starts with strings.Repeat(\"0\", 20)",
	"glob.matchChunk→chunk[0]#4":                            "follows getEsc(chunk) with err == nil, and getEsc returns ErrBadPattern whenever the remainder is empty (conditional post-condition, outside the zone domain)",
	"glob.matchChunk→chunk[1:]#5":                           "same statement as chunk[0] above",
}

func ruleBounds(c *Ctx) {
	// type invariant: struct fields that always hold an N-element slice
	c.verifyFieldLenInvariants()
	// which functions are only ever called (so that call-site facts are preconditions)
	refs, calls := map[*types.Func]int{}, map[*types.Func]int{}
	for _, pk := range c.Pkgs {
		for _, f := range pk.Syntax {
			ast.Inspect(f, func(n ast.Node) bool {
				switch x := n.(type) {
				case *ast.CallExpr:
					if g := callee(pk.TypesInfo, x); g != nil {
						calls[g]++
					}
				case *ast.Ident:
					if g, ok := pk.TypesInfo.Uses[x].(*types.Func); ok {
						refs[g]++
					}
				}
				return true
			})
		}
	}
	for g, n := range refs {
		if calls[g] == n && !g.Exported() {
			bgOnlyCalled[g] = true
		}
	}
	// pass 1: collect return summaries and call-site lower bounds
	bgCollect = true
	bgRetSummary = map[*types.Func]*intSummary{}
	bgCallLower = map[*types.Func]map[int]int64{}
	bgCallSites = map[*types.Func]int{}
	boundsPass(c, false)
	bgCollect = false
	// pass 2: prove
	boundsPass(c, true)
}

// verifyFieldLenInvariants: glob.Glob.Limits always has two elements.
func (c *Ctx) verifyFieldLenInvariants() {
	type inv struct {
		pkg, typ, field string
		n               int
	}
	for _, iv := range []inv{{"internal/glob", "Glob", "Limits", 2}} {
		fld := c.Field(iv.pkg, iv.typ, iv.field)
		key := "field-length-invariant/" + iv.typ + "." + iv.field
		if fld == nil {
			c.und(key, 0, "field not found")
			continue
		}
		ok, sites := true, 0
		for _, pk := range c.Pkgs {
			for _, f := range pk.Syntax {
				ast.Inspect(f, func(n ast.Node) bool {
					var val ast.Expr
					switch x := n.(type) {
					case *ast.CompositeLit:
						if tv, has := pk.TypesInfo.Types[x]; has && isNamedType(tv.Type, modPath+"/"+iv.pkg, iv.typ) {
							sites++
							set := false
							for _, e := range x.Elts {
								if kv, isKV := e.(*ast.KeyValueExpr); isKV {
									if id, isId := kv.Key.(*ast.Ident); isId && id.Name == iv.field {
										val, set = kv.Value, true
									}
								}
							}
							if !set {
								ok = false
							}
						}
					case *ast.AssignStmt:
						for i, l := range x.Lhs {
							if selField(pk.TypesInfo, l) == fld && i < len(x.Rhs) {
								sites++
								val = x.Rhs[i]
							}
						}
					}
					if val != nil {
						cl, isLit := ast.Unparen(val).(*ast.CompositeLit)
						if !isLit || len(cl.Elts) != iv.n {
							ok = false
						}
					}
					return true
				})
			}
		}
		if ok && sites > 0 {
			fieldLenInvariant[modPath+"/"+iv.pkg+"."+iv.typ+"."+iv.field] = int64(iv.n)
			c.ok(key, fld.Pos(), true, "every construction of %s sets %s to a %d-element literal and every store assigns one (%d sites)", iv.typ, iv.field, iv.n, sites)
		} else {
			delete(fieldLenInvariant, modPath+"/"+iv.pkg+"."+iv.typ+"."+iv.field)
			c.bad(key, fld.Pos(), "%s.%s is not always a %d-element slice (a construction or store of another shape exists): every %s[0]/%s[1] in the callers can be out of range", iv.typ, iv.field, iv.n, iv.field, iv.field)
		}
	}
}

var exemptUsed = map[string]bool{}

func boundsPass(c *Ctx, report bool) {
	total, proved := 0, 0
	for _, rel := range []string{"internal/server", "internal/glob"} {
		for _, fn := range c.AllFuncs(rel) {
			info := fn.Info()
			// variables assigned inside literals that are not invoked on the spot are never tracked
			noTrk := map[types.Object]bool{}
			invoked := map[*ast.FuncLit]bool{}
			ast.Inspect(fn.Decl.Body, func(n ast.Node) bool {
				if call, ok := n.(*ast.CallExpr); ok {
					if lit, ok := ast.Unparen(call.Fun).(*ast.FuncLit); ok {
						if _, isGo := c.Parent(call).(*ast.GoStmt); !isGo {
							if _, isDefer := c.Parent(call).(*ast.DeferStmt); !isDefer {
								invoked[lit] = true
							}
						}
					}
				}
				return true
			})
			var lits []*ast.FuncLit
			ast.Inspect(fn.Decl.Body, func(n ast.Node) bool {
				lit, ok := n.(*ast.FuncLit)
				if !ok {
					return true
				}
				if !invoked[lit] {
					lits = append(lits, lit)
					ast.Inspect(lit.Body, func(m ast.Node) bool {
						switch s := m.(type) {
						case *ast.AssignStmt:
							for _, l := range s.Lhs {
								if _, root, ok := pathKey(info, l); ok {
									if root.Pos() < lit.Pos() || root.Pos() > lit.End() {
										noTrk[root] = true
									}
								}
							}
						case *ast.IncDecStmt:
							if _, root, ok := pathKey(info, s.X); ok {
								if root.Pos() < lit.Pos() || root.Pos() > lit.End() {
									noTrk[root] = true
								}
							}
						case *ast.UnaryExpr:
							if s.Op.String() == "&" {
								if _, root, ok := pathKey(info, s.X); ok {
									noTrk[root] = true
								}
							}
						}
						return true
					})
				}
				return true
			})
			// address-taken locals anywhere: not tracked
			ast.Inspect(fn.Decl.Body, func(n ast.Node) bool {
				if ue, ok := n.(*ast.UnaryExpr); ok && ue.Op.String() == "&" {
					if id, ok := ast.Unparen(ue.X).(*ast.Ident); ok {
						if o := info.ObjectOf(id); o != nil && isIntType(o.Type()) {
							noTrk[o] = true
						}
					}
				}
				return true
			})
			bodies := []struct {
				b    *ast.BlockStmt
				name string
			}{{fn.Decl.Body, funcName(fn.Obj)}}
			for i, l := range lits {
				bodies = append(bodies, struct {
					b    *ast.BlockStmt
					name string
				}{l.Body, funcName(fn.Obj) + "$" + litRoleNames(c, info, lits)[i]})
			}
			for _, bd := range bodies {
				u := &bgUnit{c: c, fn: fn, info: info, body: bd.b, name: bd.name, vars: map[string]int{}, roots: map[int]types.Object{}, isLen: map[int]bool{}, noTrk: noTrk}
				u.prepareVars()
				u.run(u.top(), true)
				seen := map[ast.Node]*bgOb{}
				for _, ob := range u.obls {
					// the recording pass visits every block once; a node is recorded once
					if prev, ok := seen[ob.node]; ok {
						if !ob.ok {
							prev.ok, prev.why = false, ob.why
						}
						continue
					}
					seen[ob.node] = ob
				}
				ord := map[string]int{}
				for _, ob := range u.obls {
					if seen[ob.node] != ob {
						continue
					}
					// nested non-invoked literals are separate units: skip nodes inside them
					inLit := false
					for _, l := range lits {
						if l.Body != bd.b && l.Pos() <= ob.node.Pos() && ob.node.End() <= l.End() && !(bd.b.Pos() >= l.Pos() && bd.b.End() <= l.End()) {
							inLit = true
						}
					}
					if inLit {
						continue
					}
					if !report {
						continue
					}
					total++
					ord[ob.desc]++
					key := bd.name + "→" + ob.desc
					if ord[ob.desc] > 1 {
						key = fmt.Sprintf("%s#%d", key, ord[ob.desc])
					}
					if ob.ok {
						proved++
						c.ok(key, ob.node.Pos(), true, "%s", ob.why)
					} else if r, ok := boundsExempt[key]; ok {
						exemptUsed[key] = true
						c.ok(key, ob.node.Pos(), false, "reviewed exemption: %s", r)
					} else if r, ok := boundsExemptUnits[bd.name]; ok {
						exemptUsed["unit:"+bd.name] = true
						c.ok(key, ob.node.Pos(), false, "reviewed exemption (unit handles server-built data only): %s", r)
					} else if owner, r := inheritedUnitExemption(c, fn); owner != "" {
						// a helper that only an exempt unit calls works on the same server-built data
						exemptUsed["unit:"+owner] = true
						c.ok(key, ob.node.Pos(), false, "reviewed exemption inherited from its only caller %s: %s", owner, r)
					} else {
						c.bad(key, ob.node.Pos(), "%s: %s — a short or empty client argument reaches this expression and the server process panics", ob.desc, ob.why)
					}
				}
			}
		}
	}
	if report {
		c.stat("reviewed_exemptions_used", len(exemptUsed))
		c.stat("index_and_slice_sites", total)
		c.stat("proved_by_the_zone_analysis", proved)
	}
}

// ---------------------------------------------------------------------------
// R16.message-nonempty: licence for the entry assumption len(msg.Args) >= 1

func init() {
	register(&Rule{ID: "R16.message-nonempty", Props: []string{"C16"}, Floor: 12,
		Text: "licence for assuming len(msg.Args) >= 1 wherever a *Message is used ((*Message).Command indexes Args[0]): every construction of a Message and every store to Message.Args assigns a value whose length is at least 1 — a non-empty literal, an append with extra elements, or a value whose lower bound the zone analysis derives at that point; transient or externally checked sites are reviewed one by one",
		Run:  ruleMessageNonEmpty})
}

var msgSiteReviewed = map[string]string{
	"server.(*Server).loadAOF→msg.Args = msg.Args[:0]":                       "reset that is refilled in the next statement from args, which is non-empty under the dominating len(args) > 0; the message is not used in between",
	"server.(*Server).cmdMassInsert$lit→nmsg.Args = args":                    "developer-mode generator (refused unless Options.DevMode): docmd is only called with the literal \"set\" vector it builds",
	"server.(*Server).followHandleCommand→Message{Args: args}":               "replication stream from the configured leader (a trusted peer): every element is a logged command with at least its name",
	"server.(*Server).cmdSetHook→cmsg.Args = make([]string, len(commandvs))": "copy of the fence command stored with the hook for re-emission by AOFSHRINK; never dispatched through Command()",
	"server.readNextHTTPCommand$lit→msg.Args = nmsg.Args":                    "HTTP path: ReadMessages rejects the message with errInvalidHTTP when len(msg.Args) == 0 before it is handed on",
	"server.readNativeMessageLine→Message{Args: args}":                       "only used for the HTTP path above, whose caller rejects an empty argument vector",
}

// lenLower: a lower bound of len(e) at the given state.
func (u *bgUnit) lenLower(z *zone, e ast.Expr) int64 {
	e = ast.Unparen(e)
	switch x := e.(type) {
	case *ast.CompositeLit:
		n := int64(0)
		for _, el := range x.Elts {
			if _, isKV := el.(*ast.KeyValueExpr); !isKV {
				n++
			}
		}
		return n
	case *ast.SliceExpr:
		base := u.lenLower(z, x.X)
		lo := int64(0)
		if x.Low != nil {
			l := u.linear(x.Low)
			if !l.ok || l.v != 0 {
				return 0
			}
			lo = l.c
		}
		if x.High != nil {
			return 0
		}
		if base-lo < 0 {
			return 0
		}
		return base - lo
	case *ast.CallExpr:
		if id, ok := ast.Unparen(x.Fun).(*ast.Ident); ok {
			if _, isB := u.info.Uses[id].(*types.Builtin); isB {
				switch id.Name {
				case "append":
					extra := int64(len(x.Args) - 1)
					if x.Ellipsis.IsValid() {
						extra--
					}
					return u.lenLower(z, x.Args[0]) + extra
				case "make":
					if len(x.Args) >= 2 {
						l := u.linear(x.Args[1])
						if l.ok && l.v == 0 {
							return l.c
						}
						if l.ok && l.v < z.n {
							if b := z.get(0, l.v); b < inf {
								return -b + l.c
							}
						}
					}
					return 0
				}
			}
		}
	}
	if ln, ok := u.lenOf(z, e); ok {
		if ln.v == 0 {
			return ln.c
		}
		if ln.v < z.n {
			if b := z.get(0, ln.v); b < inf {
				return -b + ln.c
			}
		}
	}
	return 0
}

type msgSite struct {
	key   string
	node  ast.Node
	lower int64
}

var bgMsgSites []msgSite

func ruleMessageNonEmpty(c *Ctx) {
	args := c.Field("internal/server", "Message", "Args")
	if args == nil {
		c.und("anchors", 0, "Message.Args not found")
		return
	}
	n := 0
	bgNoMsgAssume = true
	defer func() { bgNoMsgAssume = false }()
	for _, fn := range c.AllFuncs("internal/server") {
		info := fn.Info()
		has := false
		ast.Inspect(fn.Decl.Body, func(x ast.Node) bool {
			switch s := x.(type) {
			case *ast.AssignStmt:
				for _, l := range s.Lhs {
					if selField(info, l) == args {
						has = true
					}
				}
			case *ast.CompositeLit:
				if tv, ok := info.Types[s]; ok && isNamedType(tv.Type, modPath+"/internal/server", "Message") {
					has = true
				}
			}
			return true
		})
		if !has {
			continue
		}
		// analyse the function and every literal as its own unit, recording the sites
		var units []struct {
			b    *ast.BlockStmt
			name string
		}
		units = append(units, struct {
			b    *ast.BlockStmt
			name string
		}{fn.Decl.Body, funcName(fn.Obj)})
		ast.Inspect(fn.Decl.Body, func(x ast.Node) bool {
			if lit, ok := x.(*ast.FuncLit); ok {
				units = append(units, struct {
					b    *ast.BlockStmt
					name string
				}{lit.Body, funcName(fn.Obj) + "$lit"})
			}
			return true
		})
		seen := map[ast.Node]bool{}
		for _, un := range units {
			u := &bgUnit{c: c, fn: fn, info: info, body: un.b, name: un.name, vars: map[string]int{}, roots: map[int]types.Object{}, isLen: map[int]bool{}, noTrk: map[types.Object]bool{}}
			u.prepareVars()
			u.siteField = args
			u.run(u.top(), true)
			for _, st := range u.sites {
				// a node inside a nested literal is reported by the literal's own unit (more precise entry state is not available there, but the key is stable)
				inner := false
				ast.Inspect(un.b, func(x ast.Node) bool {
					if lit, ok := x.(*ast.FuncLit); ok && lit.Body != un.b && lit.Pos() <= st.node.Pos() && st.node.End() <= lit.End() {
						inner = true
					}
					return true
				})
				if inner || seen[st.node] {
					continue
				}
				seen[st.node] = true
				n++
				key := un.name + "→" + st.key
				switch {
				case st.lower >= 1:
					c.ok(key, st.node.Pos(), true, "the assigned argument vector has at least %d element(s) at this point", st.lower)
				case msgSiteReviewed[key] != "":
					c.ok(key, st.node.Pos(), false, "reviewed: %s", msgSiteReviewed[key])
				default:
					c.bad(key, st.node.Pos(), "a Message can be given an empty argument vector here: (*Message).Command indexes Args[0], so the next use of the message kills the server process")
				}
			}
		}
	}
	c.stat("message_construction_sites", n)
}

// inheritedUnitExemption: fn is called only from the function that owns a unit exemption (it is a piece of
// that function moved into a helper); returns the owner's key and reason.
func inheritedUnitExemption(c *Ctx, fn *FuncInfo) (string, string) {
	if _, own := boundsExemptUnits[funcName(fn.Obj)]; own {
		return "", ""
	}
	for key, reason := range boundsExemptUnits {
		if strings.Contains(key, "$") {
			continue
		}
		// the declared function behind the key: its plain name is the part after the last '.'
		name := key[strings.LastIndex(key, ".")+1:]
		for f := range c.calledOnlyFrom(name) {
			if f == fn.Obj && f.Name() != name {
				// make sure the seed really is the exempt unit (same qualified name)
				for g := range c.calledOnlyFrom(name) {
					if funcName(g) == key {
						return key, reason
					}
				}
			}
		}
	}
	return "", ""
}

// litRoleNames names the function literals of one declared function by their role rather than by their
// ordinal (an ordinal shifts whenever a maintainer adds a closure in front): the variable a literal is bound
// to, the function it is passed to, "go"/"defer"/"call" for a literal invoked on the spot, the key of a
// composite-literal element. Literals with the same role are numbered in source order (#2, #3, …).
func litRoleNames(c *Ctx, info *types.Info, lits []*ast.FuncLit) []string {
	names := make([]string, len(lits))
	count := map[string]int{}
	for i, l := range lits {
		role := "lit"
		var par ast.Node = c.Parent(l)
		for {
			if pe, ok := par.(*ast.ParenExpr); ok {
				par = c.Parent(pe)
				continue
			}
			break
		}
		switch x := par.(type) {
		case *ast.AssignStmt:
			for j, r := range x.Rhs {
				if ast.Unparen(r) == ast.Expr(l) && j < len(x.Lhs) {
					role = types.ExprString(x.Lhs[j])
				}
			}
		case *ast.ValueSpec:
			for j, r := range x.Values {
				if ast.Unparen(r) == ast.Expr(l) && j < len(x.Names) {
					role = x.Names[j].Name
				}
			}
		case *ast.KeyValueExpr:
			role = types.ExprString(x.Key)
		case *ast.ReturnStmt:
			role = "return"
		case *ast.CallExpr:
			if ast.Unparen(x.Fun) == ast.Expr(l) {
				switch c.Parent(x).(type) {
				case *ast.GoStmt:
					role = "go"
				case *ast.DeferStmt:
					role = "defer"
				default:
					role = "invoke"
				}
			} else if f := callee(info, x); f != nil {
				role = "cb:" + f.Name()
			} else {
				role = "cb:" + types.ExprString(x.Fun)
			}
		}
		count[role]++
		if count[role] > 1 {
			role = fmt.Sprintf("%s#%d", role, count[role])
		}
		names[i] = role
	}
	return names
}
