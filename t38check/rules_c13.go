package main

import (
	"fmt"
	"go/ast"
	"go/token"
	"go/types"

	"golang.org/x/tools/go/cfg"
)

func init() {
	register(&Rule{ID: "R13.traversal-distance", Props: []string{"C13"}, Floor: 4,
		Text: "in Collection.Nearby the best-first traversal of the spatial index is ordered by geodeticDistAlgo of the query's own centre (target.Center(), x as longitude, y as latitude), the box corners are forwarded min→min and max→max, and the distance handed to the user iterator is the traversal's own distance for that item, unchanged: the order of the results and the distances attached to them come from one function of one centre",
		Run:  ruleTraversalDistance})
	register(&Rule{ID: "R13.item-distance-exact", Props: []string{"C13"}, Floor: 4,
		Text: "in geodeticDistAlgo, for an item (a stored object as opposed to an index node) the rectangle is replaced by the object's own float64 rectangle (obj.Rect(): Min.X/Min.Y/Max.X/Max.Y into min[0]/min[1]/max[0]/max[1]) on the item edge, and the three (lat, lng) argument pairs of the point-to-rectangle distance take index 1 as latitude and index 0 as longitude consistently: distances are not quantised to the float32 index boxes and no pair is transposed",
		Run:  ruleItemDistanceExact})
	register(&Rule{ID: "R13.radius-cutoff", Props: []string{"C13"}, Floor: 3,
		Text: "in cmdNearby's nearest-neighbour iterator an object is delivered only where `maxDist > 0 && dist > maxDist` is known to be false (its false edge, or the true edge of an equivalent positive test), where dist is the traversal's distance parameter and maxDist the query circle's Meters(); the DISTANCE value delivered is that same dist; the only other reasons to stop are those of pushObject (R12.filters-never-stop)",
		Run:  ruleRadiusCutoff})
}

func ruleTraversalDistance(c *Ctx) {
	fn := c.Func("internal/collection", "Collection", "Nearby")
	if fn == nil {
		c.und("anchors", 0, "Collection.Nearby not found")
		return
	}
	info := fn.Info()
	var targetObj, iterObj types.Object
	for _, p := range fn.Decl.Type.Params.List {
		for _, nm := range p.Names {
			o := info.ObjectOf(nm)
			if _, ok := o.Type().Underlying().(*types.Signature); ok {
				iterObj = o
			} else if isNamedType(o.Type(), "github.com/tidwall/geojson", "Object") {
				targetObj = o
			}
		}
	}
	if targetObj == nil || iterObj == nil {
		c.und("anchors", fn.Decl.Pos(), "query object / iterator parameters not recognised")
		return
	}
	// center := target.Center()
	var centerObj types.Object
	// distFn := geodeticDistAlgo([2]float64{center.X, center.Y})
	var distFnObj types.Object
	var algoCall *ast.CallExpr
	inspectNoLit(fn.Decl.Body, func(n ast.Node) bool {
		as, ok := n.(*ast.AssignStmt)
		if !ok || len(as.Lhs) != 1 || len(as.Rhs) != 1 {
			return true
		}
		l, ok := as.Lhs[0].(*ast.Ident)
		if !ok {
			return true
		}
		call, ok := ast.Unparen(as.Rhs[0]).(*ast.CallExpr)
		if !ok {
			return true
		}
		if se, ok := ast.Unparen(call.Fun).(*ast.SelectorExpr); ok && se.Sel.Name == "Center" {
			if id, ok := ast.Unparen(se.X).(*ast.Ident); ok && info.ObjectOf(id) == targetObj {
				centerObj = info.ObjectOf(l)
			}
		}
		if f := callee(info, call); f != nil && isFunc(f, colPath, "geodeticDistAlgo") {
			distFnObj, algoCall = info.ObjectOf(l), call
		}
		return true
	})
	c.check(centerObj != nil, "centre-of-query", fn.Decl.Pos(), "the centre is target.Center() of the query parameter", "the centre of the traversal is not target.Center() of the query object")
	okCentre := false
	if algoCall != nil && len(algoCall.Args) == 1 && centerObj != nil {
		if cl, ok := ast.Unparen(algoCall.Args[0]).(*ast.CompositeLit); ok && len(cl.Elts) == 2 {
			fieldOf := func(e ast.Expr) string {
				se, ok := ast.Unparen(e).(*ast.SelectorExpr)
				if !ok {
					return ""
				}
				id, ok := ast.Unparen(se.X).(*ast.Ident)
				if !ok || info.ObjectOf(id) != centerObj {
					return ""
				}
				return se.Sel.Name
			}
			okCentre = fieldOf(cl.Elts[0]) == "X" && fieldOf(cl.Elts[1]) == "Y"
		}
	}
	pos := fn.Decl.Pos()
	if algoCall != nil {
		pos = algoCall.Pos()
	}
	c.check(okCentre, "algo-of-centre", pos, "distFn = geodeticDistAlgo([2]float64{center.X, center.Y})", "the ordering function is not built from the query centre as {X (longitude), Y (latitude)}: results are ordered by the distance to another point")
	// c.spatial.Nearby(distCallback, itemCallback)
	var trav *ast.CallExpr
	inspectNoLit(fn.Decl.Body, func(n ast.Node) bool {
		call, ok := n.(*ast.CallExpr)
		if !ok {
			return true
		}
		if se, ok := ast.Unparen(call.Fun).(*ast.SelectorExpr); ok && se.Sel.Name == "Nearby" && len(call.Args) == 2 {
			if f := selField(info, se.X); f != nil && f.Name() == "spatial" {
				trav = call
			}
		}
		return true
	})
	if trav == nil {
		c.und("traversal", fn.Decl.Pos(), "the call c.spatial.Nearby(dist, iter) was not found")
		return
	}
	// the callbacks: literals in place, or locals bound once to a literal (boxDist := func…)
	dl, ok1 := ast.Unparen(resolveLocal(info, fn.Decl.Body, trav.Args[0])).(*ast.FuncLit)
	il, ok2 := ast.Unparen(resolveLocal(info, fn.Decl.Body, trav.Args[1])).(*ast.FuncLit)
	if !ok1 || !ok2 {
		c.und("traversal", trav.Pos(), "the traversal callbacks are not function literals")
		return
	}
	// distance callback: single return distFn(conv(min), conv(max), data, item)
	params := func(l *ast.FuncLit) []types.Object {
		var ps []types.Object
		for _, f := range l.Type.Params.List {
			if len(f.Names) == 0 {
				ps = append(ps, nil)
			}
			for _, nm := range f.Names {
				if nm.Name == "_" {
					ps = append(ps, nil)
				} else {
					ps = append(ps, info.ObjectOf(nm))
				}
			}
		}
		return ps
	}
	dps := params(dl)
	okFwd := false
	var rets []*ast.ReturnStmt
	ast.Inspect(dl.Body, func(n ast.Node) bool {
		if r, ok := n.(*ast.ReturnStmt); ok {
			rets = append(rets, r)
		}
		return true
	})
	if len(rets) == 1 && len(rets[0].Results) == 1 && len(dps) == 4 {
		if call, ok := ast.Unparen(rets[0].Results[0]).(*ast.CallExpr); ok && len(call.Args) == 4 {
			if id, ok := ast.Unparen(call.Fun).(*ast.Ident); ok && distFnObj != nil && info.ObjectOf(id) == distFnObj {
				// arg k mentions only parameter k
				only := func(e ast.Expr, want types.Object) bool {
					good, bad := false, false
					ast.Inspect(e, func(n ast.Node) bool {
						if id, ok := n.(*ast.Ident); ok {
							o := info.ObjectOf(id)
							for _, p := range dps {
								if p != nil && o == p {
									if p == want {
										good = true
									} else {
										bad = true
									}
								}
							}
						}
						return true
					})
					return good && !bad
				}
				// index order inside the conversions: {float64(min[0]), float64(min[1])}
				idxOrder := func(e ast.Expr) bool {
					cl, ok := ast.Unparen(e).(*ast.CompositeLit)
					if !ok || len(cl.Elts) != 2 {
						return true // passed through unchanged
					}
					get := func(x ast.Expr) string {
						s := ""
						ast.Inspect(x, func(n ast.Node) bool {
							if ix, ok := n.(*ast.IndexExpr); ok {
								if tv, ok := info.Types[ix.Index]; ok && tv.Value != nil {
									s = tv.Value.String()
								}
							}
							return true
						})
						return s
					}
					return get(cl.Elts[0]) == "0" && get(cl.Elts[1]) == "1"
				}
				// arguments may be locals bound once inside the callback (lo := [2]float64{…})
				args := make([]ast.Expr, 4)
				for k := range args {
					args[k] = resolveLocal(info, dl.Body, call.Args[k])
				}
				okFwd = only(args[0], dps[0]) && only(args[1], dps[1]) && only(args[2], dps[2]) && only(args[3], dps[3]) &&
					idxOrder(args[0]) && idxOrder(args[1])
			}
		}
	}
	c.check(okFwd, "distance-callback-forwards", dl.Pos(), "the traversal's distance callback is distFn(min, max, data, item) with every argument from its own parameter", "the traversal's distance callback does not forward (min, max, data, item) one-to-one to the ordering function of the query centre: nodes or items are ordered by a distance to a different box")
	// item callback: iter(o, dist) with o, dist its own 3rd and 4th parameters, unchanged
	ips := params(il)
	okItem := false
	nCalls := 0
	ast.Inspect(il.Body, func(n ast.Node) bool {
		call, ok := n.(*ast.CallExpr)
		if !ok {
			return true
		}
		id, ok := ast.Unparen(call.Fun).(*ast.Ident)
		if !ok || info.ObjectOf(id) != iterObj {
			return true
		}
		nCalls++
		if len(call.Args) == 2 && len(ips) == 4 {
			a0, ok0 := ast.Unparen(call.Args[0]).(*ast.Ident)
			a1, ok1 := ast.Unparen(call.Args[1]).(*ast.Ident)
			if ok0 && ok1 && ips[2] != nil && ips[3] != nil && info.ObjectOf(a0) == ips[2] && info.ObjectOf(a1) == ips[3] {
				okItem = true
			}
		}
		return true
	})
	// the two parameters are not assigned inside the callback
	if okItem {
		ast.Inspect(il.Body, func(n ast.Node) bool {
			if as, ok := n.(*ast.AssignStmt); ok {
				for _, l := range as.Lhs {
					if id, ok := ast.Unparen(l).(*ast.Ident); ok && (info.ObjectOf(id) == ips[2] || info.ObjectOf(id) == ips[3]) {
						okItem = false
					}
				}
			}
			return true
		})
	}
	c.check(okItem && nCalls == 1, "iterator-gets-traversal-distance", il.Pos(), "the user iterator receives the traversal's item and its distance unchanged", "the user iterator does not receive the traversal's own (item, distance) pair unchanged: the distance reported, and used for the radius cut-off, is not the one the results are ordered by")
}

func ruleItemDistanceExact(c *Ctx) {
	fn := c.Func("internal/collection", "", "geodeticDistAlgo")
	if fn == nil {
		c.und("anchors", 0, "geodeticDistAlgo not found")
		return
	}
	info := fn.Info()
	var lit *ast.FuncLit
	ast.Inspect(fn.Decl.Body, func(n ast.Node) bool {
		if l, ok := n.(*ast.FuncLit); ok && lit == nil {
			lit = l
		}
		return true
	})
	if lit == nil || len(lit.Type.Params.List) == 0 {
		c.und("closure", fn.Decl.Pos(), "the returned distance function literal was not found")
		return
	}
	var ps []types.Object
	for _, f := range lit.Type.Params.List {
		for _, nm := range f.Names {
			ps = append(ps, info.ObjectOf(nm))
		}
	}
	if len(ps) != 4 {
		c.und("closure", lit.Pos(), "expected parameters (min, max, obj, item)")
		return
	}
	minO, maxO, objO, itemO := ps[0], ps[1], ps[2], ps[3]
	centerO := info.ObjectOf(fn.Decl.Type.Params.List[0].Names[0])
	fg := newFlowGraph(info, lit.Body)
	// assignments min[i] = r.<F>.<G> under the item edge, r := obj.Rect()
	var rectObj types.Object
	want := map[string]string{"min[0]": "Min.X", "min[1]": "Min.Y", "max[0]": "Max.X", "max[1]": "Max.Y"}
	got := map[string]string{}
	underItem := true
	for _, l := range fg.Find(func(n ast.Node) bool { _, ok := n.(*ast.AssignStmt); return ok }) {
		as := l.Node.(*ast.AssignStmt)
		if len(as.Lhs) != 1 || len(as.Rhs) != 1 {
			continue
		}
		if id, ok := as.Lhs[0].(*ast.Ident); ok {
			if call, ok := ast.Unparen(as.Rhs[0]).(*ast.CallExpr); ok {
				if se, ok := ast.Unparen(call.Fun).(*ast.SelectorExpr); ok && se.Sel.Name == "Rect" {
					if x, ok := ast.Unparen(se.X).(*ast.Ident); ok && info.ObjectOf(x) == objO {
						rectObj = info.ObjectOf(id)
					}
				}
			}
			// the whole corner at once: min = [2]float64{r.Min.X, r.Min.Y}
			if cl, ok := ast.Unparen(as.Rhs[0]).(*ast.CompositeLit); ok && len(cl.Elts) == 2 && (info.ObjectOf(id) == minO || info.ObjectOf(id) == maxO) {
				base := "min"
				if info.ObjectOf(id) == maxO {
					base = "max"
				}
				for i, el := range cl.Elts {
					if kv, isKV := el.(*ast.KeyValueExpr); isKV {
						if tv, ok := info.Types[kv.Key]; ok && tv.Value != nil {
							if tv.Value.String() == "1" {
								i = 1
							} else {
								i = 0
							}
						}
						el = kv.Value
					}
					if s2, ok := ast.Unparen(el).(*ast.SelectorExpr); ok {
						if s1, ok := ast.Unparen(s2.X).(*ast.SelectorExpr); ok {
							if r, ok := ast.Unparen(s1.X).(*ast.Ident); ok && rectObj != nil && info.ObjectOf(r) == rectObj {
								got[fmt.Sprintf("%s[%d]", base, i)] = s1.Sel.Name + "." + s2.Sel.Name
							}
						}
					}
				}
				dom := false
				for _, f := range fg.DominatingFacts(l) {
					if fid, ok := ast.Unparen(f.E).(*ast.Ident); ok && info.ObjectOf(fid) == itemO && !f.Neg {
						dom = true
					}
				}
				if !dom {
					underItem = false
				}
			}
			continue
		}
		ix, ok := ast.Unparen(as.Lhs[0]).(*ast.IndexExpr)
		if !ok {
			continue
		}
		base, ok := ast.Unparen(ix.X).(*ast.Ident)
		if !ok || (info.ObjectOf(base) != minO && info.ObjectOf(base) != maxO) {
			continue
		}
		tv, ok := info.Types[ix.Index]
		if !ok || tv.Value == nil {
			continue
		}
		key := base.Name + "[" + tv.Value.String() + "]"
		if info.ObjectOf(base) == minO {
			key = "min[" + tv.Value.String() + "]"
		} else {
			key = "max[" + tv.Value.String() + "]"
		}
		// r.Min.X
		if s2, ok := ast.Unparen(as.Rhs[0]).(*ast.SelectorExpr); ok {
			if s1, ok := ast.Unparen(s2.X).(*ast.SelectorExpr); ok {
				if r, ok := ast.Unparen(s1.X).(*ast.Ident); ok && rectObj != nil && info.ObjectOf(r) == rectObj {
					got[key] = s1.Sel.Name + "." + s2.Sel.Name
				}
			}
		}
		dom := false
		for _, f := range fg.DominatingFacts(l) {
			if id, ok := ast.Unparen(f.E).(*ast.Ident); ok && info.ObjectOf(id) == itemO && !f.Neg {
				dom = true
			}
		}
		if !dom {
			underItem = false
		}
	}
	okExact := rectObj != nil && len(got) == 4
	for k, v := range want {
		if got[k] != v {
			okExact = false
		}
	}
	c.check(okExact, "item-uses-own-rect", lit.Pos(), "for an item, min/max are replaced by obj.Rect().Min/Max (X→[0], Y→[1])", "for a stored object the distance is not computed from the object's own rectangle with X→[0], Y→[1]: distances are quantised to the float32 index box or an axis is transposed")
	c.check(underItem && len(got) > 0, "replacement-only-for-items", lit.Pos(), "the replacement happens only on the item edge", "the rectangle of an index node is overwritten too (or the replacement is unconditional): the lower bound used to order nodes is wrong")
	// the distance call: (center[1], center[0], min[1], min[0], max[1], max[0])
	var dcall *ast.CallExpr
	ast.Inspect(lit.Body, func(n ast.Node) bool {
		if call, ok := n.(*ast.CallExpr); ok {
			if f := callee(info, call); f != nil && isFunc(f, colPath, "pointRectDistGeodeticDeg") {
				dcall = call
			}
		}
		return true
	})
	okArgs := false
	if dcall != nil && len(dcall.Args) == 6 {
		exp := []struct {
			o   types.Object
			idx string
		}{{centerO, "1"}, {centerO, "0"}, {minO, "1"}, {minO, "0"}, {maxO, "1"}, {maxO, "0"}}
		okArgs = true
		for i, a := range dcall.Args {
			ix, ok := ast.Unparen(a).(*ast.IndexExpr)
			if !ok {
				okArgs = false
				break
			}
			id, ok := ast.Unparen(ix.X).(*ast.Ident)
			tv, ok2 := info.Types[ix.Index]
			if !ok || !ok2 || tv.Value == nil || info.ObjectOf(id) != exp[i].o || tv.Value.String() != exp[i].idx {
				okArgs = false
			}
		}
	}
	pos := lit.Pos()
	if dcall != nil {
		pos = dcall.Pos()
	}
	c.check(okArgs, "lat-lng-argument-order", pos, "pointRectDistGeodeticDeg(center[1], center[0], min[1], min[0], max[1], max[0])", "the (lat, lng) argument pairs of the point-to-rectangle distance are not (index 1, index 0) of centre, min and max in that order: a transposed or mixed-up pair changes every distance")
	// the parameter order of pointRectDistGeodeticDeg → Rad is forwarded one-to-one (each scaled by the same factor)
	deg := c.Func("internal/collection", "", "pointRectDistGeodeticDeg")
	okDeg := false
	if deg != nil {
		dinfo := deg.Info()
		var dps []types.Object
		for _, f := range deg.Decl.Type.Params.List {
			for _, nm := range f.Names {
				dps = append(dps, dinfo.ObjectOf(nm))
			}
		}
		ast.Inspect(deg.Decl.Body, func(n ast.Node) bool {
			call, ok := n.(*ast.CallExpr)
			if !ok {
				return true
			}
			if f := callee(dinfo, call); f == nil || !isFunc(f, colPath, "pointRectDistGeodeticRad") || len(call.Args) != len(dps) {
				return true
			}
			okDeg = true
			var factor string
			for i, a := range call.Args {
				be, ok := ast.Unparen(a).(*ast.BinaryExpr)
				if !ok {
					okDeg = false
					break
				}
				// p*math.Pi/180 parses as (p*math.Pi)/180
				inner, ok := ast.Unparen(be.X).(*ast.BinaryExpr)
				if !ok || be.Op != token.QUO || inner.Op != token.MUL {
					okDeg = false
					break
				}
				id, ok := ast.Unparen(inner.X).(*ast.Ident)
				if !ok || dinfo.ObjectOf(id) != dps[i] {
					okDeg = false
					break
				}
				fs := exprStr(inner.Y) + "/" + exprStr(be.Y)
				if factor == "" {
					factor = fs
				} else if fs != factor {
					okDeg = false
				}
			}
			return true
		})
	}
	c.check(okDeg, "degrees-to-radians-one-to-one", fn.Decl.Pos(), "every degree argument is converted by the same factor and forwarded in order", "pointRectDistGeodeticDeg does not forward its six arguments one-to-one with one common conversion factor")
}

func ruleRadiusCutoff(c *Ctx) {
	fn := c.Func("internal/server", "Server", "cmdNearby")
	if fn == nil {
		c.und("anchors", 0, "cmdNearby not found")
		return
	}
	info := fn.Info()
	// the literal passed to sw.col.Nearby(..., iter)
	var lit *ast.FuncLit
	var travPos token.Pos
	var litVar types.Object
	inspectNoLit(fn.Decl.Body, func(n ast.Node) bool {
		call, ok := n.(*ast.CallExpr)
		if !ok {
			return true
		}
		f := callee(info, call)
		if f == nil || !isMethod(f, colPath, "Collection", "Nearby") || len(call.Args) == 0 {
			return true
		}
		travPos = call.Pos()
		switch a := ast.Unparen(call.Args[len(call.Args)-1]).(type) {
		case *ast.FuncLit:
			lit = a
		case *ast.Ident:
			litVar = info.ObjectOf(a)
		}
		return true
	})
	if lit == nil && litVar != nil {
		ast.Inspect(fn.Decl.Body, func(n ast.Node) bool {
			if as, ok := n.(*ast.AssignStmt); ok && len(as.Lhs) == 1 && len(as.Rhs) == 1 {
				if id, ok := as.Lhs[0].(*ast.Ident); ok && info.ObjectOf(id) == litVar && id.Pos() < travPos {
					if l, ok := ast.Unparen(as.Rhs[0]).(*ast.FuncLit); ok {
						lit = l
					}
				}
			}
			return true
		})
	}
	if lit == nil {
		c.und("iterator", fn.Decl.Pos(), "the iterator passed to Collection.Nearby was not found")
		return
	}
	var ps []types.Object
	for _, f := range lit.Type.Params.List {
		for _, nm := range f.Names {
			ps = append(ps, info.ObjectOf(nm))
		}
	}
	if len(ps) != 2 {
		c.und("iterator", lit.Pos(), "expected an iterator (object, distance)")
		return
	}
	distO := ps[1]
	// maxDist := <query>.(*geojson.Circle).Meters()
	var maxO types.Object
	inspectNoLit(fn.Decl.Body, func(n ast.Node) bool {
		as, ok := n.(*ast.AssignStmt)
		if !ok || len(as.Lhs) != 1 || len(as.Rhs) != 1 {
			return true
		}
		call, ok := ast.Unparen(as.Rhs[0]).(*ast.CallExpr)
		if !ok {
			return true
		}
		if f := callee(info, call); f != nil && f.Name() == "Meters" && isMethod(f, "github.com/tidwall/geojson", "Circle", "Meters") {
			if id, ok := as.Lhs[0].(*ast.Ident); ok {
				maxO = info.ObjectOf(id)
			}
		}
		return true
	})
	c.check(maxO != nil, "radius-is-query-circle", fn.Decl.Pos(), "the cut-off radius is the query circle's Meters()", "the cut-off radius is not taken from the query circle's Meters()")
	if maxO == nil {
		return
	}
	fg := newFlowGraph(info, lit.Body)
	isCut := func(e ast.Expr) bool {
		be, ok := ast.Unparen(e).(*ast.BinaryExpr)
		if !ok || be.Op != token.LAND {
			return false
		}
		pos, ok1 := ast.Unparen(be.X).(*ast.BinaryExpr)
		cmp, ok2 := ast.Unparen(be.Y).(*ast.BinaryExpr)
		if !ok1 || !ok2 {
			return false
		}
		isId := func(e ast.Expr, o types.Object) bool {
			id, ok := ast.Unparen(e).(*ast.Ident)
			return ok && info.ObjectOf(id) == o
		}
		isZero := func(e ast.Expr) bool {
			tv, ok := info.Types[e]
			return ok && tv.Value != nil && tv.Value.String() == "0"
		}
		posOK := pos.Op == token.GTR && isId(pos.X, maxO) && isZero(pos.Y)
		cmpOK := cmp.Op == token.GTR && isId(cmp.X, distO) && isId(cmp.Y, maxO) || cmp.Op == token.LSS && isId(cmp.X, maxO) && isId(cmp.Y, distO)
		return posOK && cmpOK
	}
	// withinFact: the fact excludes (maxDist > 0 && dist > maxDist)
	isIdO := func(e ast.Expr, o types.Object) bool {
		id, ok := ast.Unparen(e).(*ast.Ident)
		return ok && info.ObjectOf(id) == o
	}
	distGtMax := func(e ast.Expr) (yes, negated bool) { // e is dist > maxDist (yes) or dist <= maxDist (negated)
		be, ok := ast.Unparen(e).(*ast.BinaryExpr)
		if !ok {
			return false, false
		}
		switch {
		case be.Op == token.GTR && isIdO(be.X, distO) && isIdO(be.Y, maxO), be.Op == token.LSS && isIdO(be.X, maxO) && isIdO(be.Y, distO):
			return true, false
		case be.Op == token.LEQ && isIdO(be.X, distO) && isIdO(be.Y, maxO), be.Op == token.GEQ && isIdO(be.X, maxO) && isIdO(be.Y, distO):
			return true, true
		}
		return false, false
	}
	noRadius := func(e ast.Expr) bool { // maxDist <= 0 or !(maxDist > 0)
		be, ok := ast.Unparen(e).(*ast.BinaryExpr)
		if !ok {
			return false
		}
		tv, has := info.Types[be.Y]
		return be.Op == token.LEQ && isIdO(be.X, maxO) && has && tv.Value != nil && tv.Value.String() == "0"
	}
	withinFact := func(f Fact) bool {
		if f.Neg && isCut(f.E) {
			return true
		}
		if ok, negated := distGtMax(f.E); ok && (f.Neg != negated) {
			return true // dist <= maxDist holds
		}
		if be, ok := ast.Unparen(f.E).(*ast.BinaryExpr); ok && be.Op == token.LOR && !f.Neg {
			l, r := be.X, be.Y
			for k := 0; k < 2; k++ {
				if okd, negated := distGtMax(r); noRadius(l) && okd && negated {
					return true
				}
				l, r = r, l
			}
		}
		return false
	}
	// deliveries: calls of another local closure or pushObject with the object
	deliveries := fg.Find(func(n ast.Node) bool {
		call, ok := n.(*ast.CallExpr)
		if !ok {
			return false
		}
		for _, a := range call.Args {
			if id, ok := ast.Unparen(a).(*ast.Ident); ok && info.ObjectOf(id) == ps[0] {
				return true
			}
		}
		return false
	})
	if len(deliveries) == 0 {
		c.und("delivery", lit.Pos(), "no delivery of the object found in the iterator")
		return
	}
	// edge classification, with flags such as hasRadius := maxDist > 0 resolved to their definition
	resolveCond := func(e ast.Expr) ast.Expr {
		if id, ok := ast.Unparen(e).(*ast.Ident); ok {
			if r := resolveLocal(info, fn.Decl.Body, id); r != ast.Expr(id) {
				return r
			}
		}
		return e
	}
	radiusPos := func(e ast.Expr) bool { // maxDist > 0
		be, ok := ast.Unparen(resolveCond(e)).(*ast.BinaryExpr)
		if !ok {
			return false
		}
		tv, has := info.Types[be.Y]
		return be.Op == token.GTR && isIdO(be.X, maxO) && has && tv.Value != nil && tv.Value.String() == "0"
	}
	// decided(edge): the edge establishes dist <= maxDist or "no radius"; beyond(edge): it establishes dist > maxDist
	classify := func(b *cfg.Block, si int) (decided, beyond bool) {
		for _, f := range fg.edgeFacts(b, si) {
			if f.Tag != nil {
				continue
			}
			if withinFact(f) {
				decided = true
			}
			if f.Neg && (radiusPos(f.E) || noRadius(resolveCond(f.E))) && radiusPos(f.E) {
				decided = true // !(maxDist > 0): no radius
			}
			if !f.Neg && noRadius(resolveCond(f.E)) {
				decided = true
			}
			if ok, negated := distGtMax(f.E); ok && (f.Neg == negated) {
				beyond = true // dist > maxDist holds
			}
		}
		return
	}
	anyTest := false
	for _, b := range fg.G.Blocks {
		for si := range b.Succs {
			if len(b.Succs) == 2 {
				if d, by := classify(b, si); d || by {
					anyTest = true
				}
			}
		}
	}
	for _, d := range deliveries {
		dd := d
		isDelivery := func(l Loc) bool { return l.Block == dd.Block && l.Idx == dd.Idx }
		guarded := anyTest
		// (1) no path reaches the delivery without a decision "within the radius" or "no radius"
		if undecided, _ := fg.Reach(PathQuery{Target: isDelivery, EdgeOK: func(b *cfg.Block, si int) bool {
			if len(b.Succs) != 2 {
				return true
			}
			dec, _ := classify(b, si)
			return !dec
		}}); undecided {
			guarded = false
		}
		// (2) once dist > maxDist is established (under a positive radius) the delivery is out of reach
		for _, b := range fg.G.Blocks {
			if len(b.Succs) != 2 || !fg.Reachable(b) {
				continue
			}
			for si, sc := range b.Succs {
				if _, by := classify(b, si); !by {
					continue
				}
				scc := sc
				if again, _ := reachBlockAvoiding2(fg, scc, isDelivery); again {
					guarded = false
				}
			}
		}
		// (3) the traversal's distance is what is compared: dist is not re-assigned before a test of it
		for _, b := range fg.G.Blocks {
			if len(b.Succs) != 2 || !fg.Reachable(b) {
				continue
			}
			dec, by := false, false
			for si := range b.Succs {
				d1, b1 := classify(b, si)
				dec, by = dec || d1, by || b1
			}
			if !dec && !by {
				continue
			}
			bb := b
			if tainted, _ := fg.Reach(PathQuery{Target: func(l Loc) bool { return l.Block == bb && l.Idx == len(bb.Nodes)-1 },
				Avoid: func(Loc) bool { return false }, EdgeOK: nil}); tainted {
				// is there an assignment to dist on some path to the test?
				assigned, _ := fg.Reach(PathQuery{Target: func(l Loc) bool {
					as, ok := l.Node.(*ast.AssignStmt)
					if !ok {
						return false
					}
					for _, lh := range as.Lhs {
						if isIdO(lh, distO) {
							// … from which the test is still reachable
							ll := l
							if r, _ := fg.Reach(PathQuery{From: ll, Target: func(t Loc) bool { return t.Block == bb && t.Idx == len(bb.Nodes)-1 }}); r {
								return true
							}
						}
					}
					return false
				}})
				if assigned {
					guarded = false
				}
			}
		}
		c.check(guarded, "delivery-within-radius", d.Node.Pos(), "the object is delivered only on the false edge of maxDist > 0 && dist > maxDist", "an object can be delivered without the test `maxDist > 0 && dist > maxDist` having failed for the traversal's distance: objects beyond the radius are returned, or objects at exactly the radius are dropped")
		// the distance delivered is dist (possibly through a local assigned only from dist or its zero value)
		call := d.Node.(*ast.CallExpr)
		okDist := false
		for _, a := range call.Args {
			id, ok := ast.Unparen(a).(*ast.Ident)
			if !ok || info.ObjectOf(id) == ps[0] {
				continue
			}
			o := info.ObjectOf(id)
			if o == distO {
				// the parameter itself; it may be zeroed when DISTANCE was not requested, nothing else
				okDist = true
				ast.Inspect(lit.Body, func(x ast.Node) bool {
					if as, ok := x.(*ast.AssignStmt); ok {
						for i, l := range as.Lhs {
							if isIdO(l, distO) {
								if i >= len(as.Rhs) {
									okDist = false
								} else if tv, ok := info.Types[as.Rhs[i]]; !ok || tv.Value == nil || tv.Value.String() != "0" {
									okDist = false
								}
							}
						}
					}
					return true
				})
				continue
			}
			if b, ok := o.Type().Underlying().(*types.Basic); !ok || b.Kind() != types.Float64 {
				continue
			}
			// every assignment to it inside the iterator is `= dist`
			n, good := 0, true
			ast.Inspect(lit.Body, func(x ast.Node) bool {
				if as, ok := x.(*ast.AssignStmt); ok {
					for i, l := range as.Lhs {
						if lid, ok := ast.Unparen(l).(*ast.Ident); ok && info.ObjectOf(lid) == o {
							n++
							if i >= len(as.Rhs) {
								good = false
							} else if rid, ok := ast.Unparen(as.Rhs[i]).(*ast.Ident); !ok || info.ObjectOf(rid) != distO {
								good = false
							}
						}
					}
				}
				return true
			})
			if n > 0 && good {
				okDist = true
			}
		}
		c.check(okDist, "reported-distance-is-traversal-distance", d.Node.Pos(), "the DISTANCE value delivered is the traversal's distance (or its zero value when not requested)", "the distance delivered with the object is not the traversal's distance for it")
	}
}

// reachBlockAvoiding2: some node for which target holds is reachable from the start of block from.
func reachBlockAvoiding2(fg *FlowGraph, from *cfg.Block, target func(Loc) bool) (bool, []ast.Node) {
	seen := map[int32]bool{}
	var walk func(b *cfg.Block) bool
	walk = func(b *cfg.Block) bool {
		if seen[b.Index] {
			return false
		}
		seen[b.Index] = true
		for i, n := range b.Nodes {
			hit := false
			inspectNoLit(n, func(x ast.Node) bool {
				if target(Loc{b, i, x}) {
					hit = true
				}
				return !hit
			})
			if hit || target(Loc{b, i, n}) {
				return true
			}
		}
		for _, s := range b.Succs {
			if walk(s) {
				return true
			}
		}
		return false
	}
	return walk(from), nil
}
