package main

import (
	"encoding/json"
	"fmt"
	"go/ast"
	"go/token"
	"os"
	"path/filepath"
	"sort"
	"strings"
	"time"
)

// Status of an obligation.
const (
	stOK        = "discharged"
	stViolated  = "violated"
	stUndecided = "undecided"
)

// Ob is one obligation: rule + construct. Identity is Rule+"/"+Key; positions
// are informational only (line drift must not change identity).
type Ob struct {
	Rule       string   `json:"rule"`
	Key        string   `json:"key"`
	Pos        string   `json:"pos,omitempty"`
	Status     string   `json:"status"`
	How        string   `json:"how"`
	Nontrivial bool     `json:"nontrivial,omitempty"`
	Path       []string `json:"path,omitempty"`
}

func (o *Ob) ID() string { return o.Rule + "/" + o.Key }

// Rule is a repository-specific rule. It may serve several properties.
type Rule struct {
	ID    string
	Props []string
	Floor int // minimum number of obligations confirmed by hand
	Text  string
	Run   func(c *Ctx)
}

var allRules []*Rule

func register(r *Rule) { allRules = append(allRules, r) }

func rulesFor(prop string) []*Rule {
	var out []*Rule
	for _, r := range allRules {
		for _, p := range r.Props {
			if p == prop {
				out = append(out, r)
			}
		}
	}
	return out
}

// Ctx carries the loaded program and collects obligations.
type Ctx struct {
	*Program
	Tier  string
	cur   *Rule
	obs   []*Ob
	byID  map[string]*Ob
	stats map[string]int
}

func newCtx(p *Program, tier string) *Ctx {
	return &Ctx{Program: p, Tier: tier, byID: map[string]*Ob{}, stats: map[string]int{}}
}

func (c *Ctx) posStr(p token.Pos) string {
	if !p.IsValid() {
		return ""
	}
	pp := c.Fset.Position(p)
	rel, err := filepath.Rel(c.Repo, pp.Filename)
	if err != nil || strings.HasPrefix(rel, "..") {
		rel = pp.Filename
	}
	return fmt.Sprintf("%s:%d", rel, pp.Line)
}

func (c *Ctx) add(key string, pos token.Pos, status, how string, nontrivial bool, path []string) *Ob {
	o := &Ob{Rule: c.cur.ID, Key: key, Pos: c.posStr(pos), Status: status, How: how, Nontrivial: nontrivial, Path: path}
	if prev, ok := c.byID[o.ID()]; ok {
		// same construct reported twice: the worse status wins
		rank := map[string]int{stOK: 0, stUndecided: 1, stViolated: 2}
		if rank[status] > rank[prev.Status] {
			prev.Status, prev.How, prev.Pos, prev.Path = status, how, o.Pos, path
		}
		prev.Nontrivial = prev.Nontrivial || nontrivial
		return prev
	}
	c.byID[o.ID()] = o
	c.obs = append(c.obs, o)
	return o
}

// ok records a discharged obligation. nontrivial: the discharge needed an
// argument (a dominating guard, a lock on the path, a table lookup).
func (c *Ctx) ok(key string, pos token.Pos, nontrivial bool, how string, a ...any) {
	c.add(key, pos, stOK, fmt.Sprintf(how, a...), nontrivial, nil)
}

func (c *Ctx) bad(key string, pos token.Pos, how string, a ...any) *Ob {
	return c.add(key, pos, stViolated, fmt.Sprintf(how, a...), true, nil)
}

func (c *Ctx) badPath(key string, pos token.Pos, path []string, how string, a ...any) *Ob {
	return c.add(key, pos, stViolated, fmt.Sprintf(how, a...), true, path)
}

func (c *Ctx) und(key string, pos token.Pos, how string, a ...any) {
	c.add(key, pos, stUndecided, fmt.Sprintf(how, a...), false, nil)
}

// check is shorthand: cond ? ok : bad.
func (c *Ctx) check(cond bool, key string, pos token.Pos, okHow, badHow string) {
	if cond {
		c.ok(key, pos, true, "%s", okHow)
	} else {
		c.bad(key, pos, "%s", badHow)
	}
}

// checkPath is check with a witness path (block nodes) attached to the violation.
func (c *Ctx) checkPath(cond bool, key string, pos token.Pos, witness []ast.Node, okHow, badHow string) {
	if cond {
		c.ok(key, pos, true, "%s", okHow)
		return
	}
	var path []string
	for _, n := range witness {
		if n != nil {
			path = append(path, c.posStr(n.Pos()))
		}
	}
	if len(path) > 12 {
		path = append(path[:6], path[len(path)-6:]...)
	}
	c.badPath(key, pos, path, "%s", badHow)
}

func (c *Ctx) stat(name string, n int) { c.stats[name] += n }

// ---------------------------------------------------------------------------
// known findings

type knownFinding struct {
	Property, Rule, Key, What string
}

type fixedEntry struct {
	Property, Commit, What string
}

// known_findings.txt line formats:
//
//	known: property=C06 rule=R6.x key=<key> :: <what fails>
//	fixed: property=C03 <commit> <what failed>
func loadKnown(path string) (known []knownFinding, fixed []fixedEntry, err error) {
	b, err := os.ReadFile(path)
	if err != nil {
		if os.IsNotExist(err) {
			return nil, nil, nil
		}
		return nil, nil, err
	}
	for _, ln := range strings.Split(string(b), "\n") {
		ln = strings.TrimSpace(ln)
		if ln == "" || strings.HasPrefix(ln, "#") {
			continue
		}
		switch {
		case strings.HasPrefix(ln, "known:"):
			rest := strings.TrimSpace(strings.TrimPrefix(ln, "known:"))
			parts := strings.SplitN(rest, " :: ", 2)
			if len(parts) != 2 {
				return nil, nil, fmt.Errorf("bad known line: %q", ln)
			}
			kf := knownFinding{What: parts[1]}
			hd := parts[0]
			// key may contain spaces: it is everything after " key="
			if i := strings.Index(hd, " key="); i >= 0 {
				kf.Key = hd[i+5:]
				hd = hd[:i]
			}
			for _, f := range strings.Fields(hd) {
				if v, ok := strings.CutPrefix(f, "property="); ok {
					kf.Property = v
				} else if v, ok := strings.CutPrefix(f, "rule="); ok {
					kf.Rule = v
				}
			}
			if kf.Property == "" || kf.Rule == "" || kf.Key == "" {
				return nil, nil, fmt.Errorf("bad known line: %q", ln)
			}
			known = append(known, kf)
		case strings.HasPrefix(ln, "fixed:"):
			f := strings.Fields(strings.TrimPrefix(ln, "fixed:"))
			if len(f) < 3 || !strings.HasPrefix(f[0], "property=") {
				return nil, nil, fmt.Errorf("bad fixed line: %q", ln)
			}
			fixed = append(fixed, fixedEntry{strings.TrimPrefix(f[0], "property="), f[1], strings.Join(f[2:], " ")})
		default:
			return nil, nil, fmt.Errorf("bad line in known findings: %q", ln)
		}
	}
	return
}

// ---------------------------------------------------------------------------
// evidence

type evidence struct {
	PropertyID  string         `json:"property_id"`
	Tier        string         `json:"tier"`
	Seed        int            `json:"seed"`
	Level       string         `json:"level"`
	Coverage    map[string]any `json:"coverage"`
	Assumptions []string       `json:"assumptions"`
	WallS       float64        `json:"wall_s"`
	Violations  int            `json:"violations"`
}

type result struct {
	violations []*Ob
	known      []*Ob
	undecided  []*Ob
	floorFail  []string
}

func writeJSON(path string, v any) error {
	b, err := json.MarshalIndent(v, "", " ")
	if err != nil {
		return err
	}
	if err := os.MkdirAll(filepath.Dir(path), 0o755); err != nil {
		return err
	}
	return os.WriteFile(path, append(b, '\n'), 0o644)
}

func sortedObs(obs []*Ob) []*Ob {
	out := append([]*Ob(nil), obs...)
	sort.SliceStable(out, func(i, j int) bool { return out[i].ID() < out[j].ID() })
	return out
}

func since(t time.Time) float64 { return float64(time.Since(t).Milliseconds()) / 1000 }
