package main

import (
	"fmt"
	"go/ast"
	"go/token"
	"go/types"
	"sort"

	"golang.org/x/tools/go/cfg"
)

func init() {
	register(&Rule{ID: "R1.err-before-effect", Props: []string{"C01", "C03"}, Floor: 15,
		Text: "'a command that returns an error or a negative answer changes nothing': in every write handler, from every effective mutation of persistent state (cols, a collection, hooks; a Collection.Delete counts only on its non-nil continuation) no feasible path reaches a return that carries a non-nil error or the NX/XX negative reply — path search on go/cfg with boolean correlation (xx/nx/ok idioms) and the fact that a collection created on the path holds no ids",
		Run:  ruleErrBeforeEffect})
	register(&Rule{ID: "R1.empty-collection", Props: []string{"C01", "C19", "C03"}, Floor: 3,
		Text: "'a collection exists iff it holds an object', delete half: in every function that deletes an object from a collection obtained from the keyspace, the delete is followed on every normal path by a test of Count() == 0 that removes the collection from the keyspace; create half: a collection registered in the keyspace while still empty receives an object on every normal path that follows",
		Run:  ruleEmptyCollection})
}

func writeHandlers(c *Ctx) []*types.Func {
	a := c.muLK()
	if a.err != "" {
		return nil
	}
	ct := a.ct
	seen := map[*types.Func]bool{}
	var hs []*types.Func
	for _, cl := range ct.DT.Clauses {
		for _, s := range cl.Strings {
			if lc := ct.classOf(s); lc != nil && lc.Write {
				for _, h := range ct.Handlers[cl] {
					if !seen[h] {
						seen[h] = true
						hs = append(hs, h)
					}
				}
			}
		}
	}
	sort.Slice(hs, func(i, j int) bool { return hs[i].Name() < hs[j].Name() })
	return hs
}

// mutationSites: direct persistent mutation sites of fn (classified accesses and calls of mutating helpers).
func mutationSites(c *Ctx, fi *FuncInfo, fg *FlowGraph) []Loc {
	a := c.muLK()
	spec := c.muSpec(false)
	u := a.lk.ofDecl[fi.Obj]
	info := fi.Info()
	var muts []Loc
	for _, b := range fg.G.Blocks {
		if !fg.Reachable(b) {
			continue
		}
		for i, n := range b.Nodes {
			inspectNoLit(n, func(x ast.Node) bool {
				for _, acc := range spec.Classify(u, x, ctxRead) {
					if acc.Write && persistLocs[acc.Loc] {
						muts = append(muts, Loc{b, i, x})
					}
				}
				if call, ok := x.(*ast.CallExpr); ok {
					if f := callee(info, call); f != nil && f != fi.Obj && a.lk.ofDecl[f] != nil && !isDispatcher(f) {
						if eff := persistEffects(c, f); len(eff) > 0 {
							muts = append(muts, Loc{b, i, x})
						}
					}
				}
				return true
			})
		}
	}
	return muts
}

func ruleErrBeforeEffect(c *Ctx) {
	hs := writeHandlers(c)
	if hs == nil {
		c.und("engine", 0, "command tables not available")
		return
	}
	for _, h := range hs {
		fi := c.FuncOf(h)
		if fi == nil {
			continue
		}
		info := fi.Info()
		fg := newFlowGraph(info, fi.Decl.Body)
		// local closures that produce the negative reply (nada)
		negClosures := map[types.Object]bool{}
		ast.Inspect(fi.Decl.Body, func(n ast.Node) bool {
			as, ok := n.(*ast.AssignStmt)
			if !ok || len(as.Lhs) != 1 || len(as.Rhs) != 1 {
				return true
			}
			if _, ok := as.Rhs[0].(*ast.FuncLit); ok {
				if id, ok := as.Lhs[0].(*ast.Ident); ok {
					negClosures[info.ObjectOf(id)] = true
				}
			}
			return true
		})
		isNegReturn := func(l Loc) bool {
			r, ok := l.Node.(*ast.ReturnStmt)
			if !ok {
				return false
			}
			if returnsError(info, fi, r) {
				return true
			}
			for _, res := range r.Results {
				if call, ok := ast.Unparen(res).(*ast.CallExpr); ok {
					if id, ok := ast.Unparen(call.Fun).(*ast.Ident); ok && negClosures[info.ObjectOf(id)] {
						return true
					}
				}
			}
			return false
		}
		muts := mutationSites(c, fi, fg)
		ord := map[string]int{}
		for _, m := range muts {
			desc := exprStr(mutExpr(m.Node))
			ord[desc]++
			key := funcName(h) + "→" + desc
			if ord[desc] > 1 {
				key = fmt.Sprintf("%s#%d", key, ord[desc])
			}
			fresh := freshCollectionArg(info, fi, m.Node)
			reach, trail := fg.Reach(PathQuery{
				From:      Loc{m.Block, m.Idx, m.Node},
				Target:    isNegReturn,
				Correlate: true,
				Gen:       freshLookupFacts(info, fresh),
				EdgeOK: func(b *cfg.Block, si int) bool {
					if deleteResultNilEdge(info, fg, b, si, m.Node) {
						return false
					}
					// a collection created on this path holds no ids: X.Get(..) != nil is infeasible
					if fresh != nil && assertsGetNonNil(info, fg, b, si, fresh) {
						return false
					}
					// a handler that delegates to another write handler returns whatever that returns: the
					// `err != nil` edge after a mutating helper call means the helper refused (it obeys this rule itself)
					return true
				},
			})
			// delegation: `return s.cmdSET(&nmsg)` — the mutation IS the return expression
			if r, ok := m.Block.Nodes[m.Idx].(*ast.ReturnStmt); ok && containsNode(r, m.Node) {
				reach = false
			}
			if reach {
				var path []string
				for _, n := range trail {
					path = append(path, c.posStr(n.Pos()))
				}
				c.badPath(key, m.Node.Pos(), path, "after this mutation a return with an error (or the NX/XX negative reply) is still reachable: the client is told the command failed or did nothing although the dataset changed")
			} else {
				c.ok(key, m.Node.Pos(), true, "no error or negative return is reachable after the mutation")
			}
		}
	}
}

// freshCollectionArg: n is s.cols.Set(k, v) registering a collection created by collection.New on the way; returns v.
func freshCollectionArg(info *types.Info, fi *FuncInfo, n ast.Node) types.Object {
	if !isFreshCollectionInsert(info, fi, n) {
		return nil
	}
	call := n.(*ast.CallExpr)
	id := ast.Unparen(call.Args[1]).(*ast.Ident)
	return info.ObjectOf(id)
}

// assertsGetNonNil: the edge asserts col.Get(...) != nil for the given collection variable.
func assertsGetNonNil(info *types.Info, fg *FlowGraph, b *cfg.Block, si int, col types.Object) bool {
	for _, f := range fg.edgeFacts(b, si) {
		be, ok := ast.Unparen(f.E).(*ast.BinaryExpr)
		if !ok || (be.Op != token.EQL && be.Op != token.NEQ) {
			continue
		}
		call, ok := ast.Unparen(be.X).(*ast.CallExpr)
		if !ok {
			continue
		}
		se, ok := ast.Unparen(call.Fun).(*ast.SelectorExpr)
		if !ok || se.Sel.Name != "Get" {
			continue
		}
		id, ok := ast.Unparen(se.X).(*ast.Ident)
		if !ok || info.ObjectOf(id) != col {
			continue
		}
		if tv, ok := info.Types[be.Y]; !ok || !tv.IsNil() {
			continue
		}
		nonNil := be.Op == token.NEQ && !f.Neg || be.Op == token.EQL && f.Neg
		if nonNil {
			return true
		}
	}
	return false
}

func ruleEmptyCollection(c *Ctx) {
	a := c.muLK()
	if a.err != "" {
		c.und("engine", 0, "%s", a.err)
		return
	}
	cols := c.Field("internal/server", "Server", "cols")
	n := 0
	for _, fn := range c.AllFuncs("internal/server") {
		info := fn.Info()
		var dels []*ast.CallExpr
		var creates []*ast.CallExpr
		inspectNoLit(fn.Decl.Body, func(x ast.Node) bool {
			call, ok := x.(*ast.CallExpr)
			if !ok {
				return true
			}
			if f := callee(info, call); f != nil && isMethod(f, colPath, "Collection", "Delete") {
				dels = append(dels, call)
			}
			if isFreshCollectionInsert(info, fn, call) {
				creates = append(creates, call)
			}
			return true
		})
		if len(dels)+len(creates) == 0 {
			continue
		}
		fg := newFlowGraph(info, fn.Decl.Body)
		for _, d := range dels {
			n++
			key := funcName(fn.Obj) + "→" + exprStr(d.Fun) + "/cleanup"
			dl := fg.LocOf(d)
			if !dl.Valid() {
				c.und(key, d.Pos(), "delete call not located")
				continue
			}
			recv := ast.Unparen(d.Fun).(*ast.SelectorExpr).X
			// cleanup test: a condition <recv>.Count() == 0 whose true edge reaches s.cols.Delete
			isCleanup := func(l Loc) bool {
				hit := false
				inspectNoLit(l.Node, func(y ast.Node) bool {
					be, ok := y.(*ast.BinaryExpr)
					if !ok || be.Op != token.EQL {
						return true
					}
					call, ok := ast.Unparen(be.X).(*ast.CallExpr)
					if !ok {
						return true
					}
					f := callee(info, call)
					if f == nil || !isMethod(f, colPath, "Collection", "Count") {
						return true
					}
					se := ast.Unparen(call.Fun).(*ast.SelectorExpr)
					if sameExpr(info, se.X, recv) {
						hit = true
					}
					return true
				})
				return hit
			}
			skip, trail := fg.Reach(PathQuery{From: dl,
				Target: func(l Loc) bool {
					r, ok := l.Node.(*ast.ReturnStmt)
					return ok && !returnsError(info, fn, r)
				},
				Avoid:  isCleanup,
				EdgeOK: func(b *cfg.Block, si int) bool { return !deleteResultNilEdge(info, fg, b, si, d) },
			})
			// and the true branch of the cleanup test deletes from cols
			delCols := false
			ast.Inspect(fn.Decl.Body, func(y ast.Node) bool {
				ifs, ok := y.(*ast.IfStmt)
				if !ok || !isCleanup(Loc{Node: ifs.Cond}) {
					return true
				}
				ast.Inspect(ifs.Body, func(z ast.Node) bool {
					if call, ok := z.(*ast.CallExpr); ok {
						if se, ok := ast.Unparen(call.Fun).(*ast.SelectorExpr); ok && se.Sel.Name == "Delete" && selField(info, se.X) == cols {
							delCols = true
						}
					}
					return true
				})
				return true
			})
			if skip || !delCols {
				var path []string
				for _, nd := range trail {
					path = append(path, c.posStr(nd.Pos()))
				}
				c.badPath(key, d.Pos(), path, "an object is deleted from a collection and a normal return is reachable without the Count() == 0 → s.cols.Delete(key) cleanup: an empty collection stays visible in KEYS, STATS and the collection count")
			} else {
				c.ok(key, d.Pos(), true, "every normal path after the delete passes the empty-collection cleanup")
			}
		}
		for _, cr := range creates {
			n++
			key := funcName(fn.Obj) + "→" + exprStr(cr.Fun) + "/filled"
			cl := fg.LocOf(cr)
			col := freshCollectionArg(info, fn, cr)
			if !cl.Valid() || col == nil {
				c.und(key, cr.Pos(), "creation site not located")
				continue
			}
			isFill := func(l Loc) bool {
				hit := false
				inspectNoLit(l.Node, func(y ast.Node) bool {
					if call, ok := y.(*ast.CallExpr); ok {
						if f := callee(info, call); f != nil && isMethod(f, colPath, "Collection", "Set") {
							if id, ok := ast.Unparen(ast.Unparen(call.Fun).(*ast.SelectorExpr).X).(*ast.Ident); ok && info.ObjectOf(id) == col {
								hit = true
							}
						}
						// a helper that stores an object into the collection it is given, on every path
						if f := callee(info, call); f != nil {
							for i, a := range call.Args {
								if id, ok := ast.Unparen(a).(*ast.Ident); ok && info.ObjectOf(id) == col && mustSetParam(c, f, i) {
									hit = true
								}
							}
						}
					}
					return true
				})
				return hit
			}
			empty, trail := fg.Reach(PathQuery{From: cl,
				Target:    func(l Loc) bool { _, ok := l.Node.(*ast.ReturnStmt); return ok },
				Avoid:     isFill,
				Correlate: true,
				Gen:       freshLookupFacts(info, col),
				EdgeOK:    func(b *cfg.Block, si int) bool { return !assertsGetNonNil(info, fg, b, si, col) },
			})
			if empty {
				var path []string
				for _, nd := range trail {
					path = append(path, c.posStr(nd.Pos()))
				}
				c.badPath(key, cr.Pos(), path, "a new, empty collection is registered in the keyspace and a return is reachable before any object is stored in it: the collection exists without holding an object")
			} else {
				c.ok(key, cr.Pos(), true, "every path after registering the new collection stores an object in it")
			}
		}
	}
	c.stat("delete_and_create_sites", n)
}

// freshLookupFacts: p := <fresh>.Get(id) on a collection created on this path yields nil.
func freshLookupFacts(info *types.Info, fresh types.Object) func(ast.Node, map[identFact]bool) map[identFact]bool {
	if fresh == nil {
		return nil
	}
	return func(n ast.Node, facts map[identFact]bool) map[identFact]bool {
		as, ok := n.(*ast.AssignStmt)
		if !ok || len(as.Lhs) != 1 || len(as.Rhs) != 1 {
			return facts
		}
		call, ok := ast.Unparen(as.Rhs[0]).(*ast.CallExpr)
		if !ok {
			return facts
		}
		f := callee(info, call)
		if f == nil || !isMethod(f, colPath, "Collection", "Get") {
			return facts
		}
		se, ok := ast.Unparen(call.Fun).(*ast.SelectorExpr)
		if !ok {
			return facts
		}
		x, ok := ast.Unparen(se.X).(*ast.Ident)
		if !ok || info.ObjectOf(x) != fresh {
			return facts
		}
		id, ok := as.Lhs[0].(*ast.Ident)
		if !ok || info.ObjectOf(id) == nil {
			return facts
		}
		out := map[identFact]bool{}
		for k, v := range facts {
			out[k] = v
		}
		out[identFact{info.ObjectOf(id), true}] = true
		return out
	}
}

var mustSetCache = map[string]bool{}

// mustSetParam: every path through f to a normal return passes a Collection.Set on its i-th parameter.
func mustSetParam(c *Ctx, f *types.Func, i int) bool {
	k := fmt.Sprintf("%p/%d", f, i)
	if v, ok := mustSetCache[k]; ok {
		return v
	}
	mustSetCache[k] = false
	fi := c.FuncOf(f)
	if fi == nil || fi.Decl.Body == nil {
		return false
	}
	sig := f.Type().(*types.Signature)
	if i >= sig.Params().Len() {
		return false
	}
	p := sig.Params().At(i)
	info := fi.Info()
	fg := newFlowGraph(info, fi.Decl.Body)
	isSet := func(n ast.Node) bool {
		hit := false
		inspectNoLit(n, func(y ast.Node) bool {
			if call, ok := y.(*ast.CallExpr); ok {
				if g := callee(info, call); g != nil && isMethod(g, colPath, "Collection", "Set") {
					if id, ok := ast.Unparen(ast.Unparen(call.Fun).(*ast.SelectorExpr).X).(*ast.Ident); ok && info.ObjectOf(id) == p {
						hit = true
					}
				}
			}
			return true
		})
		return hit
	}
	any := false
	for _, b := range fg.G.Blocks {
		for _, n := range b.Nodes {
			if isSet(n) {
				any = true
			}
		}
	}
	if !any {
		return false
	}
	skip, _ := fg.Reach(PathQuery{
		Target: func(l Loc) bool {
			if r, ok := l.Node.(*ast.ReturnStmt); ok {
				return !returnsError(info, fi, r)
			}
			return len(l.Block.Succs) == 0 && l.Idx == len(l.Block.Nodes)-1
		},
		Avoid: func(l Loc) bool { return isSet(l.Block.Nodes[l.Idx]) },
	})
	mustSetCache[k] = !skip
	return !skip
}
