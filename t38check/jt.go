package main

import (
	"fmt"
	"go/ast"
	"go/constant"
	"go/token"
	"go/types"
	"strings"
)

// ---------------------------------------------------------------------------
// JT — JSON fragment typing (DESIGN.md 3.6).
//
// A chain is a sequence of literal pieces and holes that the code
// concatenates into JSON text: a `+` expression, the argument of a
// WriteString/Write, the literals appended to a []byte, a Sprintf format.
// The literal text is scanned with a JSON lexer state (inside / outside a
// string); every hole is classified by its producer.

type jtPiece struct {
	lit  string // literal text (when hole == nil)
	hole ast.Expr
}

type jtChain struct {
	fn     *FuncInfo
	pos    token.Pos
	pieces []jtPiece
	kind   string
}

type jtClass int

const (
	jtUnknown  jtClass = iota
	jtValue            // a complete JSON value
	jtFragment         // a JSON fragment that starts with ',' (or is empty) and leaves the lexer outside a string
	jtText             // raw text over an alphabet without '"', '\\' and control characters
	jtList             // comma-joined values
	jtNested           // text assembled by another checked chain (a nested builder)
)

func (c jtClass) String() string {
	return [...]string{"unclassified", "value", "fragment", "text", "list", "nested"}[c]
}

func looksJSON(s string) bool {
	return strings.Contains(s, `{"`) || strings.Contains(s, `,"`) || strings.Contains(s, `":`) || strings.Contains(s, `"}`) || strings.Contains(s, `":"`)
}

// flattenConcat: operands of a string `+` chain.
func flattenConcat(info *types.Info, e ast.Expr, out *[]ast.Expr) {
	e = ast.Unparen(e)
	if be, ok := e.(*ast.BinaryExpr); ok && be.Op == token.ADD {
		if tv, ok := info.Types[be]; ok && isStringType(tv.Type) {
			flattenConcat(info, be.X, out)
			flattenConcat(info, be.Y, out)
			return
		}
	}
	*out = append(*out, e)
}

func litOf(info *types.Info, e ast.Expr) (string, bool) {
	e = ast.Unparen(e)
	if tv, ok := info.Types[e]; ok && tv.Value != nil {
		switch tv.Value.Kind() {
		case constant.String:
			return constant.StringVal(tv.Value), true
		case constant.Int:
			// a byte/rune constant appended to a buffer
			if b, ok := tv.Type.Underlying().(*types.Basic); ok && (b.Kind() == types.Uint8 || b.Kind() == types.Int32 || b.Kind() == types.UntypedRune) {
				if v, exact := constant.Int64Val(tv.Value); exact && v >= 0 && v < 0x110000 {
					return string(rune(v)), true
				}
			}
		}
	}
	// []byte("lit") / string conversions of literals
	if call, ok := e.(*ast.CallExpr); ok && len(call.Args) == 1 {
		if tv, ok := info.Types[call.Fun]; ok && tv.IsType() {
			return litOf(info, call.Args[0])
		}
	}
	return "", false
}

func chainFromConcat(info *types.Info, e ast.Expr) []jtPiece {
	var ops []ast.Expr
	flattenConcat(info, e, &ops)
	var ps []jtPiece
	for _, o := range ops {
		if s, ok := litOf(info, o); ok {
			ps = append(ps, jtPiece{lit: s})
		} else {
			ps = append(ps, jtPiece{hole: o})
		}
	}
	return ps
}

func piecesHaveJSON(ps []jtPiece) bool {
	for _, p := range ps {
		if p.hole == nil && looksJSON(p.lit) {
			return true
		}
	}
	return false
}

// collectChains finds the JSON chains of a function.
func collectChains(c *Ctx, fn *FuncInfo) []*jtChain {
	info := fn.Info()
	var out []*jtChain
	seenConcat := map[ast.Expr]bool{}
	add := func(kind string, pos token.Pos, ps []jtPiece) {
		if len(ps) == 0 || !piecesHaveJSON(ps) {
			return
		}
		out = append(out, &jtChain{fn: fn, pos: pos, pieces: ps, kind: kind})
	}
	// statement sequences: consecutive `buf = append(...)` / `buf = helper(buf, ...)` on the same []byte variable
	consumed := map[*ast.CallExpr]bool{}
	var piecesOf func(e ast.Expr, v types.Object) ([]jtPiece, bool)
	piecesOf = func(e ast.Expr, v types.Object) ([]jtPiece, bool) {
		e = ast.Unparen(e)
		if id, ok := e.(*ast.Ident); ok && info.ObjectOf(id) == v {
			return nil, true
		}
		call, ok := e.(*ast.CallExpr)
		if !ok || len(call.Args) == 0 {
			return nil, false
		}
		base, ok := piecesOf(call.Args[0], v)
		if !ok {
			return nil, false
		}
		consumed[call] = true
		if id, ok := ast.Unparen(call.Fun).(*ast.Ident); ok && id.Name == "append" {
			if _, isB := info.Uses[id].(*types.Builtin); isB {
				for _, a := range call.Args[1:] {
					if s, ok := litOf(info, a); ok {
						base = append(base, jtPiece{lit: s})
					} else if be, ok := ast.Unparen(a).(*ast.BinaryExpr); ok && be.Op == token.ADD {
						base = append(base, chainFromConcat(info, be)...)
						var mark func(e ast.Expr)
						mark = func(e ast.Expr) {
							if b2, ok := ast.Unparen(e).(*ast.BinaryExpr); ok && b2.Op == token.ADD {
								seenConcat[b2] = true
								mark(b2.X)
								mark(b2.Y)
							}
						}
						mark(be)
					} else {
						base = append(base, jtPiece{hole: a})
					}
				}
				return base, true
			}
		}
		// a helper that appends to its first argument: the whole call is the hole (classified by its callee)
		base = append(base, jtPiece{hole: call})
		return base, true
	}
	ast.Inspect(fn.Decl.Body, func(n ast.Node) bool {
		var list []ast.Stmt
		switch b := n.(type) {
		case *ast.BlockStmt:
			list = b.List
		case *ast.CaseClause:
			list = b.Body
		default:
			return true
		}
		var cur []jtPiece
		var curVar types.Object
		var curPos token.Pos
		flush := func() {
			if curVar != nil {
				add("append-sequence", curPos, cur)
			}
			cur, curVar = nil, nil
		}
		for _, st := range list {
			as, ok := st.(*ast.AssignStmt)
			if ok && len(as.Lhs) == 1 && len(as.Rhs) == 1 {
				if id, ok := as.Lhs[0].(*ast.Ident); ok {
					if o := info.ObjectOf(id); o != nil && isByteSlice(o.Type()) {
						if ps, ok := piecesOf(as.Rhs[0], o); ok && len(ps) > 0 {
							if curVar != o {
								flush()
								curVar, curPos = o, as.Pos()
							}
							cur = append(cur, ps...)
							continue
						}
					}
				}
			}
			flush()
		}
		flush()
		return true
	})
	var visit func(n ast.Node) bool
	visit = func(n ast.Node) bool {
		if call, ok := n.(*ast.CallExpr); ok && consumed[call] {
			// part of a statement sequence: its literals were checked there; still visit nested concatenations
			for _, a := range call.Args {
				ast.Inspect(a, visit)
			}
			return false
		}
		switch x := n.(type) {
		case *ast.BinaryExpr:
			if x.Op == token.ADD && !seenConcat[x] {
				if tv, ok := info.Types[x]; ok && isStringType(tv.Type) {
					// mark the whole tree
					var mark func(e ast.Expr)
					mark = func(e ast.Expr) {
						if be, ok := ast.Unparen(e).(*ast.BinaryExpr); ok && be.Op == token.ADD {
							seenConcat[be] = true
							mark(be.X)
							mark(be.Y)
						}
					}
					mark(x)
					add("concat", x.Pos(), chainFromConcat(info, x))
				}
			}
		case *ast.CallExpr:
			// append(dst, lit...) and append(dst, 'c'): nested appends form one chain, left to right
			if id, ok := ast.Unparen(x.Fun).(*ast.Ident); ok && id.Name == "append" {
				if _, isB := info.Uses[id].(*types.Builtin); isB {
					if tv, ok := info.Types[x]; ok && isByteSlice(tv.Type) {
						if p, isAppendArg := c.Parent(x).(*ast.CallExpr); isAppendArg {
							if pid, ok := ast.Unparen(p.Fun).(*ast.Ident); ok && pid.Name == "append" && len(p.Args) > 0 && ast.Unparen(p.Args[0]) == x {
								return true // inner append: handled by the outermost
							}
						}
						var ps []jtPiece
						var rec func(call *ast.CallExpr)
						rec = func(call *ast.CallExpr) {
							if inner, ok := ast.Unparen(call.Args[0]).(*ast.CallExpr); ok {
								if iid, ok := ast.Unparen(inner.Fun).(*ast.Ident); ok && iid.Name == "append" {
									rec(inner)
								} else if f := callee(info, inner); f != nil && strings.HasPrefix(f.Name(), "append") {
									// appendJSONString(append(buf, ...), key): nested helper over an append chain
									if len(inner.Args) > 0 {
										if in2, ok := ast.Unparen(inner.Args[0]).(*ast.CallExpr); ok {
											if i2, ok := ast.Unparen(in2.Fun).(*ast.Ident); ok && i2.Name == "append" {
												rec(in2)
											}
										}
									}
									ps = append(ps, jtPiece{hole: inner})
								}
							}
							for _, a := range call.Args[1:] {
								if s, ok := litOf(info, a); ok {
									ps = append(ps, jtPiece{lit: s})
								} else {
									ps = append(ps, jtPiece{hole: a})
								}
							}
						}
						rec(x)
						add("append", x.Pos(), ps)
					}
				}
			}
			// fmt.Sprintf / Fprintf with a JSON format
			if f := callee(info, x); f != nil && f.Pkg() != nil && f.Pkg().Path() == "fmt" && (f.Name() == "Sprintf" || f.Name() == "Fprintf") {
				ai := 0
				if f.Name() == "Fprintf" {
					ai = 1
				}
				if len(x.Args) > ai {
					if format, ok := litOf(info, x.Args[ai]); ok && looksJSON(format) {
						var ps []jtPiece
						rest := x.Args[ai+1:]
						k := 0
						for len(format) > 0 {
							i := strings.IndexByte(format, '%')
							if i < 0 {
								ps = append(ps, jtPiece{lit: format})
								break
							}
							ps = append(ps, jtPiece{lit: format[:i]})
							j := i + 1
							for j < len(format) && strings.IndexByte("+-# 0123456789.", format[j]) >= 0 {
								j++
							}
							if j < len(format) && format[j] == '%' {
								ps = append(ps, jtPiece{lit: "%"})
							} else if k < len(rest) {
								verb := byte('v')
								if j < len(format) {
									verb = format[j]
								}
								ps = append(ps, jtPiece{hole: &ast.CallExpr{Fun: &ast.Ident{Name: "%" + string(verb), NamePos: rest[k].Pos()}, Args: []ast.Expr{rest[k]}, Lparen: rest[k].Pos(), Rparen: rest[k].End()}})
								k++
							}
							if j < len(format) {
								format = format[j+1:]
							} else {
								format = ""
							}
						}
						add("sprintf", x.Pos(), ps)
					}
				}
			}
		}
		return true
	}
	ast.Inspect(fn.Decl.Body, visit)
	return out
}

// ---------------------------------------------------------------------------
// lexer

type jtLex struct {
	inStr   bool
	esc     bool
	last    byte // last significant byte outside strings (0 at start)
	started bool
}

func (l *jtLex) feed(s string) {
	for i := 0; i < len(s); i++ {
		ch := s[i]
		if l.inStr {
			switch {
			case l.esc:
				l.esc = false
			case ch == '\\':
				l.esc = true
			case ch == '"':
				l.inStr = false
				l.last = '"'
			}
			continue
		}
		switch ch {
		case '"':
			l.inStr = true
			l.started = true
		case ' ', '\t', '\n', '\r':
		default:
			l.last = ch
			l.started = true
		}
	}
}

// ---------------------------------------------------------------------------
// producer classification

// reviewed producers, by resolved callee (package path + name, or receiver type + method)
var jtValueFuncs = map[string]bool{
	modPath + "/internal/server.jsonString":     true,
	modPath + "/internal/server.jsonTimeFormat": true,
	modPath + "/internal/server.ConvertToJSON":  true,
	"strconv.Itoa": true, "strconv.FormatInt": true, "strconv.FormatUint": true, "strconv.FormatBool": true,
	"strconv.FormatFloat": true,
}

// appenders: func(dst []byte, ...) []byte that append one JSON value to dst
var jtValueAppenders = map[string]bool{
	modPath + "/internal/server.appendJSONString":       true,
	modPath + "/internal/server.appendJSONSimplePoint":  true,
	modPath + "/internal/server.appendJSONSimpleBounds": true,
	modPath + "/internal/server.appendJSONTimeFormat":   true,
	"strconv.AppendInt": true, "strconv.AppendUint": true, "strconv.AppendFloat": true, "strconv.AppendBool": true,
}

var jtValueMethods = map[string]bool{
	"JSON":       true, // field.Value.JSON, geojson.Object.JSON
	"AppendJSON": true, // geojson.Object.AppendJSON
}

var jtFragmentFuncs = map[string]bool{
	modPath + "/internal/server.hookJSONString":    true,
	modPath + "/internal/server.appendHookDetails": true,
}

func funcKey(f *types.Func) string {
	if f == nil || f.Pkg() == nil {
		return ""
	}
	return f.Pkg().Path() + "." + f.Name()
}

type jtCtx struct {
	c        *Ctx
	fn       *FuncInfo
	info     *types.Info
	visiting map[types.Object]bool
}

// classify a hole expression.
func (j *jtCtx) classify(e ast.Expr, depth int) (jtClass, string) {
	info := j.info
	e = ast.Unparen(e)
	// Sprintf verbs: %d %v on integers are values; %s / %v on other things depend on the argument
	if call, ok := e.(*ast.CallExpr); ok {
		if id, ok := call.Fun.(*ast.Ident); ok && id.Name == "%first" && len(call.Args) == 1 {
			// first result of a multi-value call
			inner := call.Args[0].(*ast.CallExpr)
			f := callee(info, inner)
			if funcKey(f) == "encoding/json.Marshal" {
				return jtValue, "json.Marshal"
			}
			if f != nil && j.c.FuncOf(f) != nil && depth < 2 {
				if cls := j.c.jtFuncResult(f, depth+1); cls != jtUnknown {
					return cls, "first result of " + f.Name()
				}
			}
			return jtUnknown, "first result of " + exprStr(inner.Fun) + " is not classified"
		}
		if id, ok := call.Fun.(*ast.Ident); ok && strings.HasPrefix(id.Name, "%") && len(call.Args) == 1 {
			arg := call.Args[0]
			tv := info.Types[arg]
			if tv.Type != nil && isNamedType(tv.Type, "time", "Duration") && (id.Name == "%s" || id.Name == "%v") {
				return jtText, "time.Duration formatted with its String method"
			}
			switch id.Name {
			case "%x", "%X":
				return jtText, "hex digits"
			case "%d":
				return jtValue, "integer verb"
			case "%t":
				return jtValue, "boolean verb"
			case "%f", "%g", "%e":
				return jtValue, "float verb"
			case "%q":
				return jtValue, "%q quotes like a JSON string for ASCII text"
			}
			if tv.Type != nil && isIntType(tv.Type) {
				return jtValue, "integer formatted with " + id.Name
			}
			return j.classify(arg, depth)
		}
	}
	if s, ok := litOf(info, e); ok {
		if !strings.ContainsAny(s, "\"\\") {
			return jtText, "constant without quote or backslash"
		}
		return jtNested, "constant"
	}
	switch x := e.(type) {
	case *ast.CallExpr:
		// conversions: string(b), []byte(s)
		if tv, ok := info.Types[x.Fun]; ok && tv.IsType() && len(x.Args) == 1 {
			return j.classify(x.Args[0], depth)
		}
		f := callee(info, x)
		k := funcKey(f)
		if jtValueFuncs[k] {
			if k == "strconv.FormatFloat" && len(x.Args) >= 2 {
				if s, ok := litOf(info, x.Args[1]); !ok || s != "f" {
					return jtUnknown, "FormatFloat with a format other than 'f' can print NaN/Inf/exponents differently"
				}
			}
			return jtValue, "reviewed value producer " + f.Name()
		}
		if jtValueAppenders[k] {
			return jtValue, "reviewed value appender " + f.Name()
		}
		if jtFragmentFuncs[k] {
			return jtFragment, "reviewed fragment producer " + f.Name()
		}
		if f != nil && jtValueMethods[f.Name()] && f.Type().(*types.Signature).Recv() != nil {
			return jtValue, "method " + f.Name() + " renders a JSON value"
		}
		if k == "encoding/json.Marshal" {
			return jtValue, "json.Marshal"
		}
		if f != nil && f.Name() == "String" && f.Type().(*types.Signature).Recv() != nil {
			rt := recvNamed(f)
			if rt != nil {
				switch rt.Obj().Pkg().Path() + "." + rt.Obj().Name() {
				case "time.Duration":
					return jtText, "time.Duration.String: digits, letters, '.', 'µ'"
				case "bytes.Buffer", "strings.Builder":
					return jtNested, "contents of a builder filled by checked chains"
				}
			}
		}
		if k == "fmt.Sprintf" && len(x.Args) >= 1 {
			if format, ok := litOf(info, x.Args[0]); ok && !strings.ContainsAny(format, "\"\\") {
				safe := true
				rest := x.Args[1:]
				ki := 0
				for i := 0; i < len(format); i++ {
					if format[i] != '%' {
						continue
					}
					jx := i + 1
					for jx < len(format) && strings.IndexByte("+-# 0123456789.", format[jx]) >= 0 {
						jx++
					}
					if jx < len(format) && format[jx] != '%' {
						switch format[jx] {
						case 'd', 'x', 'X', 'f', 'g', 't', 'b', 'o':
						default:
							if ki < len(rest) {
								if cls, _ := j.classify(rest[ki], depth+1); cls != jtText {
									safe = false
								}
							} else {
								safe = false
							}
						}
						ki++
					}
					i = jx
				}
				if safe {
					return jtText, "Sprintf of a quote-free format with numeric/hex verbs"
				}
			}
		}
		if f != nil && f.Pkg() != nil && f.Pkg().Path() == "github.com/mmcloughlin/geohash" && strings.HasPrefix(f.Name(), "Encode") {
			return jtText, "geohash base-32 alphabet"
		}
		if k == "strings.Join" && len(x.Args) == 2 {
			if sep, ok := litOf(info, x.Args[1]); ok && sep == "," {
				return jtList, "comma-joined list"
			}
		}
		if k == "strings.ToLower" || k == "strings.ToUpper" || k == "strings.TrimSpace" {
			return j.classify(x.Args[0], depth)
		}
		if k == "encoding/base64.(*Encoding).EncodeToString" || (f != nil && f.Name() == "EncodeToString") {
			return jtText, "base64/hex alphabet"
		}
		if k == modPath+"/internal/server.bsonID" || k == modPath+"/internal/server.Sha1Sum" || k == modPath+"/internal/server.randomKey" {
			return jtText, "hex digits"
		}
		if f != nil && f.Name() == "Bytes" && f.Type().(*types.Signature).Recv() != nil {
			return jtNested, "contents of a buffer filled by checked chains"
		}
		// tile38 function returning assembled JSON: nested builder
		if f != nil && j.c.FuncOf(f) != nil && depth < 2 {
			if cls := j.c.jtFuncResult(f, depth+1); cls != jtUnknown {
				return cls, "result of " + f.Name() + " (assembled by checked chains)"
			}
		}
	case *ast.Ident:
		o := info.ObjectOf(x)
		if o == nil {
			break
		}
		if j.visiting[o] {
			return jtNested, "the variable being defined (accumulation)"
		}
		if cls, why, ok := j.constrainedToConstants(x); ok {
			return cls, why
		}
		if v, ok := o.(*types.Var); ok && !v.IsField() {
			if j.visiting == nil {
				j.visiting = map[types.Object]bool{}
			}
			j.visiting[o] = true
			defer delete(j.visiting, o)
			// a local: every definition must classify the same
			var defs []ast.Expr
			isParam := false
			ast.Inspect(j.fn.Decl, func(n ast.Node) bool {
				switch s := n.(type) {
				case *ast.AssignStmt:
					if len(s.Lhs) == len(s.Rhs) {
						for i, l := range s.Lhs {
							if id, ok := l.(*ast.Ident); ok && info.ObjectOf(id) == o {
								defs = append(defs, s.Rhs[i])
							}
						}
					} else {
						for i, l := range s.Lhs {
							if id, ok := l.(*ast.Ident); ok && info.ObjectOf(id) == o {
								if i == 0 && len(s.Rhs) == 1 {
									if call, ok := ast.Unparen(s.Rhs[0]).(*ast.CallExpr); ok {
										defs = append(defs, &ast.CallExpr{Fun: &ast.Ident{Name: "%first", NamePos: call.Pos()}, Args: []ast.Expr{call}, Lparen: call.Pos(), Rparen: call.End()})
										continue
									}
								}
								defs = append(defs, nil)
							}
						}
					}
				case *ast.ValueSpec:
					for i, nm := range s.Names {
						if info.ObjectOf(nm) == o && i < len(s.Values) {
							defs = append(defs, s.Values[i])
						}
					}
				case *ast.Field:
					for _, nm := range s.Names {
						if info.ObjectOf(nm) == o {
							isParam = true
						}
					}
				case *ast.RangeStmt:
					for _, e := range []ast.Expr{s.Key, s.Value} {
						if id, ok := e.(*ast.Ident); ok && info.ObjectOf(id) == o {
							defs = append(defs, nil)
						}
					}
				}
				return true
			})
			if isParam {
				if ent, ok := jtParamTable[j.fn.Obj.Name()+"."+x.Name]; ok {
					return ent.cls, "reviewed parameter: " + ent.why
				}
				// the parameter of a local closure that does not escape: the class its arguments have at every call
				if args, isCl, ok := closureParamArgs(j.c.Program, info, j.fn.Decl, o); isCl && ok && len(args) > 0 && depth < 3 {
					cls := jtUnknown
					for i, a := range args {
						ca, _ := j.classify(a, depth+1)
						if ca == jtUnknown || (i > 0 && ca != cls) {
							return jtUnknown, "parameter " + x.Name + " of a local closure receives " + exprStr(a) + ", which has no (or another) class"
						}
						cls = ca
					}
					// it must not be re-assigned inside the closure
					if len(defs) == 0 {
						return cls, fmt.Sprintf("parameter of a local closure; all %d calls pass %s", len(args), cls)
					}
				}
				return jtUnknown, "parameter " + x.Name + " of " + j.fn.Obj.Name() + " has no reviewed class"
			}
			if len(defs) > 0 && depth < 3 {
				cls := jtUnknown
				for i, d := range defs {
					if d == nil {
						return jtUnknown, "variable " + x.Name + " is assigned from a multi-value expression"
					}
					// x = x + "..." style accumulation: the accumulated variable itself is neutral
					cd, _ := j.classifyAccum(d, o, depth+1)
					if i == 0 {
						cls = cd
					} else if cd != cls {
						if (cls == jtText && cd == jtNested) || (cls == jtNested && cd == jtText) {
							cls = jtNested
							continue
						}
						return jtUnknown, "variable " + x.Name + " has definitions of different classes"
					}
				}
				if cls != jtUnknown {
					return cls, "every definition of " + x.Name + " is " + cls.String()
				}
			}
		}
		if isIntType(o.Type()) {
			return jtUnknown, "integer variable used as text"
		}
	case *ast.SelectorExpr:
		if f := selField(info, x); f != nil {
			if ent, ok := jtFieldTable[fieldKey(f)]; ok {
				return ent.cls, "reviewed field: " + ent.why
			}
		}
	case *ast.SliceExpr:
		// res[1:] of an assembled message: same class as the base
		cls, why := j.classify(x.X, depth)
		if cls == jtNested || cls == jtValue {
			return jtNested, "slice of " + why
		}
	case *ast.IndexExpr:
		// element of a slice of assembled strings
		cls, why := j.classify(x.X, depth)
		if cls == jtList || cls == jtNested {
			return jtNested, "element of " + why
		}
	}
	return jtUnknown, "producer " + exprStr(e) + " is not a reviewed JSON value, fragment or quote-free text producer"
}

// classifyAccum: definition d of variable o; occurrences of o itself inside d (s = s + x) are neutral.
func (j *jtCtx) classifyAccum(d ast.Expr, o types.Object, depth int) (jtClass, string) {
	var ops []ast.Expr
	flattenConcat(j.info, d, &ops)
	if len(ops) > 1 {
		cls := jtNested
		for _, op := range ops {
			if id, ok := ast.Unparen(op).(*ast.Ident); ok && j.info.ObjectOf(id) == o {
				continue
			}
			if _, ok := litOf(j.info, op); ok {
				continue
			}
			cd, why := j.classify(op, depth)
			if cd == jtUnknown {
				return jtUnknown, why
			}
		}
		return cls, "concatenation checked as its own chain"
	}
	return j.classify(d, depth)
}

func fieldKey(f *types.Var) string {
	return f.Pkg().Name() + "." + f.Name()
}

// reviewed table for parameters and fields that carry quote-free text or assembled JSON
type jtEntry struct {
	cls jtClass
	why string
}

var jtParamTable = map[string]jtEntry{}

var jtFieldTable = map[string]jtEntry{}

func init() {
	p := func(k string, c jtClass, why string) { jtParamTable[k] = jtEntry{c, why} }
	f := func(k string, c jtClass, why string) { jtFieldTable[k] = jtEntry{c, why} }
	p("makemsg.command", jtText, "commandDetails.command: lower-case command names assigned as constants by the handlers")
	p("makemsg.group", jtText, "bsonID hex string (groupConnect/groupGet)")
	p("makemsg.detect", jtText, "detect names: constants of fenceMatch (R5.detect-vocabulary)")
	p("makemsg.tail", jtNested, "the object part of a message assembled by scanWriter.writeObject, without its leading '{'")
	p("extendRoamMessage.kind", jtText, "\"nearby\"/\"faraway\" constants at both call sites")
	p("extendRoamMessage.baseMsg", jtNested, "a message assembled by makemsg")
	p("jsonTimeFormat.t", jtValue, "n/a")
	f("server.command", jtText, "commandDetails.command: lower-case constants")
	_ = f
}

var jtFuncMemo = map[*types.Func]jtClass{}

// jtFuncResult: class of the string/[]byte result of a tile38 function whose return expressions are all classified.
func (c *Ctx) jtFuncResult(f *types.Func, depth int) jtClass {
	if v, ok := jtFuncMemo[f]; ok {
		return v
	}
	jtFuncMemo[f] = jtUnknown
	fi := c.FuncOf(f)
	if fi == nil {
		return jtUnknown
	}
	sig := f.Type().(*types.Signature)
	if sig.Results().Len() < 1 {
		return jtUnknown
	}
	rt := sig.Results().At(0).Type()
	if !isStringType(rt) && !isByteSlice(rt) {
		return jtUnknown
	}
	j := &jtCtx{c: c, fn: fi, info: fi.Info()}
	cls := jtUnknown
	first := true
	ok := true
	ast.Inspect(fi.Decl.Body, func(n ast.Node) bool {
		if _, isLit := n.(*ast.FuncLit); isLit {
			return false
		}
		r, isRet := n.(*ast.ReturnStmt)
		if isRet && len(r.Results) == 0 && sig.Results().At(0).Name() != "" {
			// bare return: the named first result as assigned so far; classify the variable by its definitions
			var named *ast.Ident
			if fi.Decl.Type.Results != nil && len(fi.Decl.Type.Results.List) > 0 && len(fi.Decl.Type.Results.List[0].Names) > 0 {
				named = fi.Decl.Type.Results.List[0].Names[0]
			}
			if named != nil {
				assigned := false
				ast.Inspect(fi.Decl.Body, func(m ast.Node) bool {
					if as, isAs := m.(*ast.AssignStmt); isAs {
						for _, l := range as.Lhs {
							if id, isId := l.(*ast.Ident); isId && fi.Info().ObjectOf(id) == fi.Info().ObjectOf(named) {
								assigned = true
							}
						}
					}
					return true
				})
				if !assigned {
					return true // zero value: no text produced
				}
			}
			ok = false
			return true
		}
		if !isRet || len(r.Results) != sig.Results().Len() {
			if isRet {
				ok = false
			}
			return true
		}
		// error returns with a zero first result do not produce text
		if len(r.Results) > 1 {
			if s, isL := litOf(fi.Info(), r.Results[0]); isL && s == "" {
				return true
			}
		}
		var ops []ast.Expr
		flattenConcat(fi.Info(), r.Results[0], &ops)
		cd := jtNested
		if len(ops) == 1 {
			cd, _ = j.classify(ops[0], depth)
		} else {
			for _, op := range ops {
				if _, isL := litOf(fi.Info(), op); isL {
					continue
				}
				if x, _ := j.classify(op, depth); x == jtUnknown {
					cd = jtUnknown
				}
			}
		}
		if cd == jtUnknown {
			ok = false
		}
		if first {
			cls, first = cd, false
		} else if cd != cls {
			if cd != jtUnknown && cls != jtUnknown {
				cls = jtNested
			}
		}
		return true
	})
	if !ok {
		cls = jtUnknown
	}
	jtFuncMemo[f] = cls
	return cls
}

// ---------------------------------------------------------------------------

type jtFinding struct {
	chain *jtChain
	hole  ast.Expr
	msg   string
	ok    bool
	why   string
	where string // "value" (after ':'), "string" (inside quotes), "other"
}

func checkChain(c *Ctx, ch *jtChain) []jtFinding {
	j := &jtCtx{c: c, fn: ch.fn, info: ch.fn.Info()}
	var out []jtFinding
	var lx jtLex
	for _, p := range ch.pieces {
		if p.hole == nil {
			lx.feed(p.lit)
			continue
		}
		cls, why := j.classify(p.hole, 0)
		f := jtFinding{chain: ch, hole: p.hole, why: why}
		switch {
		case lx.inStr:
			f.where = "string"
			f.ok = cls == jtText
			if !f.ok {
				f.msg = fmt.Sprintf("%s is inserted between double quotes without escaping (%s): a quote, backslash or control character in it breaks the JSON document", exprStr(p.hole), why)
			}
		case lx.last == ':':
			f.where = "value"
			f.ok = cls == jtValue || cls == jtNested
			if !f.ok {
				f.msg = fmt.Sprintf("%s is inserted at value position (after ':') but is not a JSON value producer (%s, class %s): the reply is not valid JSON", exprStr(p.hole), why, cls)
			}
			if f.ok {
				lx.last = 'v'
			}
		default:
			f.where = "other"
			f.ok = cls != jtUnknown
			if !f.ok {
				f.msg = fmt.Sprintf("%s is inserted into JSON text but is not a reviewed value, fragment, list or quote-free text producer (%s)", exprStr(p.hole), why)
			}
			if f.ok && (cls == jtValue || cls == jtNested || cls == jtList) {
				lx.last = 'v'
			}
		}
		out = append(out, f)
	}
	if lx.inStr {
		out = append(out, jtFinding{chain: ch, msg: "the chain ends inside a string literal: the next fragment starts between quotes", where: "end"})
	}
	return out
}

// constrainedToConstants: the identifier is, at this use, known to equal one of a set of
// quote-free constants because an enclosing `if x == "a" || x == "b"` (or switch case) guards the use.
func (j *jtCtx) constrainedToConstants(x *ast.Ident) (jtClass, string, bool) {
	o := j.info.ObjectOf(x)
	var n ast.Node = x
	for n != nil {
		p := j.c.Parent(n)
		if ifs, ok := p.(*ast.IfStmt); ok && ifs.Body == n {
			var lits []string
			okAll := true
			var walk func(e ast.Expr)
			walk = func(e ast.Expr) {
				e = ast.Unparen(e)
				be, isBin := e.(*ast.BinaryExpr)
				if !isBin {
					okAll = false
					return
				}
				switch be.Op {
				case token.LOR:
					walk(be.X)
					walk(be.Y)
				case token.EQL:
					id, isId := ast.Unparen(be.X).(*ast.Ident)
					s, isLit := litOf(j.info, be.Y)
					if isId && isLit && j.info.ObjectOf(id) == o {
						lits = append(lits, s)
					} else {
						okAll = false
					}
				default:
					okAll = false
				}
			}
			walk(ifs.Cond)
			if okAll && len(lits) > 0 {
				for _, s := range lits {
					if strings.ContainsAny(s, "\"\\") {
						return jtUnknown, "", false
					}
				}
				// the variable must not be reassigned inside the guarded block
				reassigned := false
				ast.Inspect(ifs.Body, func(m ast.Node) bool {
					if as, isAs := m.(*ast.AssignStmt); isAs {
						for _, l := range as.Lhs {
							if id, isId := l.(*ast.Ident); isId && j.info.ObjectOf(id) == o {
								reassigned = true
							}
						}
					}
					return true
				})
				if !reassigned {
					return jtText, fmt.Sprintf("guarded by %s == one of %v", x.Name, lits), true
				}
			}
		}
		n = p
	}
	return jtUnknown, "", false
}
