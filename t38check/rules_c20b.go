package main

import (
	"go/ast"
	"go/types"
	"sort"
)

func init() {
	register(&Rule{ID: "R20.no-cached-collection", Props: []string{"C20", "C05", "C19"}, Floor: 2,
		Text: "a fence (hook, channel or live connection) keeps its scan writer for its whole life, and a scan writer keeps the *collection.Collection its key named when it was created; DROP, the last DEL or expiry, and RENAME replace that collection in the keyspace, so the stored pointer goes stale. Therefore no function reachable from the fence evaluation entry (the function the hook queue and the live connections call with their stored scan writer) reads a struct field of type *collection.Collection: the collection a fence searches is looked up in the keyspace (Server.cols) inside the critical section that evaluates the fence. Positive control: the field has readers outside that set (the search commands, which create their writer in the same critical section)",
		Run:  ruleNoCachedCollection})
}

func ruleNoCachedCollection(c *Ctx) {
	entry := c.Func("internal/server", "", "FenceMatch")
	if entry == nil {
		c.und("anchors", 0, "FenceMatch not found")
		return
	}
	// struct fields of type *collection.Collection in internal/server
	isColPtr := func(t types.Type) bool {
		p, ok := t.(*types.Pointer)
		return ok && isNamedType(p.Elem(), colPath, "Collection")
	}
	// synchronous static closure from the entry (declared functions; literals belong to their function)
	reach := map[*types.Func]bool{entry.Obj: true}
	work := []*FuncInfo{entry}
	for len(work) > 0 {
		fi := work[len(work)-1]
		work = work[:len(work)-1]
		if fi.Decl.Body == nil {
			continue
		}
		info := fi.Info()
		ast.Inspect(fi.Decl.Body, func(n ast.Node) bool {
			id, ok := n.(*ast.Ident)
			if !ok {
				return true
			}
			if f, ok := info.Uses[id].(*types.Func); ok && !reach[f] {
				if g := c.FuncOf(f); g != nil && g.Pkg == fi.Pkg {
					reach[f] = true
					work = append(work, g)
				}
			}
			return true
		})
	}
	type read struct {
		fn  *FuncInfo
		sel *ast.SelectorExpr
		fld *types.Var
	}
	var inside, outside []read
	for _, fn := range c.AllFuncs("internal/server") {
		info := fn.Info()
		ast.Inspect(fn.Decl.Body, func(n ast.Node) bool {
			se, ok := n.(*ast.SelectorExpr)
			if !ok {
				return true
			}
			fv := selField(info, se)
			if fv == nil || !isColPtr(fv.Type()) {
				return true
			}
			// a store to the field is not a read
			if as, ok := c.Parent(se).(*ast.AssignStmt); ok {
				for _, l := range as.Lhs {
					if l == ast.Expr(se) {
						return true
					}
				}
			}
			if reach[fn.Obj] {
				inside = append(inside, read{fn, se, fv})
			} else {
				outside = append(outside, read{fn, se, fv})
			}
			return true
		})
	}
	var names []string
	for f := range reach {
		names = append(names, f.Name())
	}
	sort.Strings(names)
	c.stat("fence_evaluation_functions", len(reach))
	c.stat("cached_collection_reads_elsewhere", len(outside))
	if len(reach) < 5 {
		c.und("fence-evaluation", entry.Decl.Pos(), "only %d functions are reachable from FenceMatch: the call closure is not credible", len(reach))
		return
	}
	c.ok("fence-evaluation/closure", entry.Decl.Pos(), false, "%d functions are reachable from the fence evaluation entry", len(reach))
	if len(outside) == 0 {
		c.und("positive-control", entry.Decl.Pos(), "no struct field of type *collection.Collection is read anywhere: the rule has nothing to compare with")
	} else {
		c.ok("positive-control", outside[0].sel.Pos(), true, "%d reads of a cached collection pointer outside the fence evaluation (search commands)", len(outside))
	}
	if len(inside) == 0 {
		c.ok("fence-evaluation/no-cached-collection", entry.Decl.Pos(), true, "no function reachable from FenceMatch reads a cached *collection.Collection")
	}
	seen := map[string]bool{}
	for _, r := range inside {
		key := "fence-evaluation/" + funcName(r.fn.Obj) + "→" + exprStr(r.sel)
		if seen[key] {
			continue
		}
		seen[key] = true
		c.bad(key, r.sel.Pos(), "%s, which runs when a fence is evaluated, reads %s — a collection pointer stored when the fence's scan writer was created; after DROP, RENAME or the last DEL of that key the keyspace holds another collection, and the fence keeps searching the detached one (neighbours that no longer exist are reported, real ones are missed)", r.fn.Obj.Name(), exprStr(r.sel))
	}
}
