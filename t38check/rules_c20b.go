package main

import (
	"fmt"
	"go/ast"
	"go/types"
	"sort"
	"strings"
)

func init() {
	register(&Rule{ID: "R20.no-cached-collection", Props: []string{"C20", "C05", "C19"}, Floor: 2,
		Text: "a fence (hook, channel or live connection) keeps its scan writer for its whole life, and a scan writer keeps the *collection.Collection its key named when it was created; DROP, the last DEL or expiry, and RENAME replace that collection in the keyspace, so the stored pointer goes stale. Therefore no function reachable from the fence evaluation entry (the function the hook queue and the live connections call with their stored scan writer) reads a struct field of type *collection.Collection: the collection a fence searches is looked up in the keyspace (Server.cols) inside the critical section that evaluates the fence. Positive control: the field has readers outside that set (the search commands, which create their writer in the same critical section)",
		Run:  ruleNoCachedCollection})
}

func ruleNoCachedCollection(c *Ctx) {
	entry := c.Func("internal/server", "", "FenceMatch")
	if entry == nil {
		c.und("anchors", 0, "FenceMatch not found")
		return
	}
	// struct fields of type *collection.Collection in internal/server
	isColPtr := func(t types.Type) bool {
		p, ok := t.(*types.Pointer)
		return ok && isNamedType(p.Elem(), colPath, "Collection")
	}
	// synchronous static closure from the entry (declared functions; literals belong to their function)
	reach := map[*types.Func]bool{entry.Obj: true}
	work := []*FuncInfo{entry}
	for len(work) > 0 {
		fi := work[len(work)-1]
		work = work[:len(work)-1]
		if fi.Decl.Body == nil {
			continue
		}
		info := fi.Info()
		ast.Inspect(fi.Decl.Body, func(n ast.Node) bool {
			id, ok := n.(*ast.Ident)
			if !ok {
				return true
			}
			if f, ok := info.Uses[id].(*types.Func); ok && !reach[f] {
				if g := c.FuncOf(f); g != nil && g.Pkg == fi.Pkg {
					reach[f] = true
					work = append(work, g)
				}
			}
			return true
		})
	}
	type read struct {
		fn  *FuncInfo
		sel *ast.SelectorExpr
		fld *types.Var
	}
	var inside, outside []read
	for _, fn := range c.AllFuncs("internal/server") {
		info := fn.Info()
		ast.Inspect(fn.Decl.Body, func(n ast.Node) bool {
			se, ok := n.(*ast.SelectorExpr)
			if !ok {
				return true
			}
			fv := selField(info, se)
			if fv == nil || !isColPtr(fv.Type()) {
				return true
			}
			// a store to the field is not a read
			if as, ok := c.Parent(se).(*ast.AssignStmt); ok {
				for _, l := range as.Lhs {
					if l == ast.Expr(se) {
						return true
					}
				}
			}
			if reach[fn.Obj] {
				inside = append(inside, read{fn, se, fv})
			} else {
				outside = append(outside, read{fn, se, fv})
			}
			return true
		})
	}
	var names []string
	for f := range reach {
		names = append(names, f.Name())
	}
	sort.Strings(names)
	c.stat("fence_evaluation_functions", len(reach))
	c.stat("cached_collection_reads_elsewhere", len(outside))
	if len(reach) < 5 {
		c.und("fence-evaluation", entry.Decl.Pos(), "only %d functions are reachable from FenceMatch: the call closure is not credible", len(reach))
		return
	}
	c.ok("fence-evaluation/closure", entry.Decl.Pos(), false, "%d functions are reachable from the fence evaluation entry", len(reach))
	if len(outside) == 0 {
		c.und("positive-control", entry.Decl.Pos(), "no struct field of type *collection.Collection is read anywhere: the rule has nothing to compare with")
	} else {
		c.ok("positive-control", outside[0].sel.Pos(), true, "%d reads of a cached collection pointer outside the fence evaluation (search commands)", len(outside))
	}
	if len(inside) == 0 {
		c.ok("fence-evaluation/no-cached-collection", entry.Decl.Pos(), true, "no function reachable from FenceMatch reads a cached *collection.Collection")
	}
	seen := map[string]bool{}
	for _, r := range inside {
		key := "fence-evaluation/" + funcName(r.fn.Obj) + "→" + exprStr(r.sel)
		if seen[key] {
			continue
		}
		seen[key] = true
		c.bad(key, r.sel.Pos(), "%s, which runs when a fence is evaluated, reads %s — a collection pointer stored when the fence's scan writer was created; after DROP, RENAME or the last DEL of that key the keyspace holds another collection, and the fence keeps searching the detached one (neighbours that no longer exist are reported, real ones are missed)", r.fn.Obj.Name(), exprStr(r.sel))
	}
}

func init() {
	register(&Rule{ID: "R20.position-needs-spatial", Props: []string{"C20", "C05"}, Floor: 2,
		Text: "a stored value without a position (SET … STRING) answers Center() and Rect() with the zero point and Distance() with 0, and the previous value of an id may be such a string. In the functions reachable from the fence evaluation entry, every use of one of these positional accessors on the geometry of an expression that may denote the previous object — the field commandDetails.old, or a parameter that receives it at some call — is dominated by an objIsSpatial / IsSpatial test of that same expression; otherwise the previous value is treated as an object at 0N 0E: neighbours of that point are reported 'faraway' by a roaming fence, and the segment from it to the new position 'crosses' static fences",
		Run:  rulePositionNeedsSpatial})
}

func rulePositionNeedsSpatial(c *Ctx) {
	entry := c.Func("internal/server", "", "FenceMatch")
	old := c.Field("internal/server", "commandDetails", "old")
	if entry == nil || old == nil {
		c.und("anchors", 0, "FenceMatch or commandDetails.old not found")
		return
	}
	reach := map[*types.Func]*FuncInfo{entry.Obj: entry}
	work := []*FuncInfo{entry}
	for len(work) > 0 {
		fi := work[len(work)-1]
		work = work[:len(work)-1]
		info := fi.Info()
		ast.Inspect(fi.Decl.Body, func(n ast.Node) bool {
			if id, ok := n.(*ast.Ident); ok {
				if f, ok := info.Uses[id].(*types.Func); ok && reach[f] == nil {
					if g := c.FuncOf(f); g != nil && g.Pkg == fi.Pkg && g.Decl.Body != nil {
						reach[f] = g
						work = append(work, g)
					}
				}
			}
			return true
		})
	}
	// parameters that may receive the previous object (fixpoint over the calls of the closure)
	mayBeOld := map[types.Object]bool{}
	isOldExpr := func(info *types.Info, e ast.Expr) bool {
		e = ast.Unparen(e)
		if selField(info, e) == old {
			return true
		}
		if id, ok := e.(*ast.Ident); ok && mayBeOld[info.ObjectOf(id)] {
			return true
		}
		return false
	}
	for changed := true; changed; {
		changed = false
		for _, fi := range reach {
			info := fi.Info()
			ast.Inspect(fi.Decl.Body, func(n ast.Node) bool {
				call, ok := n.(*ast.CallExpr)
				if !ok {
					return true
				}
				g := callee(info, call)
				if g == nil || reach[g] == nil {
					return true
				}
				sig := g.Type().(*types.Signature)
				for i, a := range call.Args {
					if i < sig.Params().Len() && isOldExpr(info, a) && !mayBeOld[sig.Params().At(i)] {
						mayBeOld[sig.Params().At(i)] = true
						changed = true
					}
				}
				return true
			})
		}
	}
	positional := map[string]bool{"Center": true, "Rect": true, "Distance": true}
	n := 0
	var names []string
	byName := map[string]*FuncInfo{}
	for f, g := range reach {
		names = append(names, funcName(f))
		byName[funcName(f)] = g
	}
	sort.Strings(names)
	for _, nm := range names {
		fi := byName[nm]
		info := fi.Info()
		fgs := map[*ast.BlockStmt]*FlowGraph{}
		graph := func(body *ast.BlockStmt) *FlowGraph {
			if fgs[body] == nil {
				fgs[body] = newFlowGraph(info, body)
			}
			return fgs[body]
		}
		spatialAt := func(fg *FlowGraph, l Loc, e ast.Expr) (bool, string) {
			facts := fg.DominatingFacts(l)
			if l.Node != nil {
				facts = append(facts, shortCircuitFacts(c.Program, l.Node)...)
			}
			for _, f := range facts {
				if f.Neg {
					continue
				}
				call, ok := ast.Unparen(f.E).(*ast.CallExpr)
				if !ok {
					continue
				}
				g := callee(info, call)
				if g == nil {
					continue
				}
				switch {
				case g.Name() == "objIsSpatial" && len(call.Args) == 1:
					if gc, ok := ast.Unparen(call.Args[0]).(*ast.CallExpr); ok {
						if se, ok := ast.Unparen(gc.Fun).(*ast.SelectorExpr); ok && se.Sel.Name == "Geo" && sameExpr(info, se.X, e) {
							return true, "dominated by objIsSpatial(" + exprStr(e) + ".Geo())"
						}
					}
				case g.Name() == "IsSpatial":
					if se, ok := ast.Unparen(call.Fun).(*ast.SelectorExpr); ok && sameExpr(info, se.X, e) {
						return true, "dominated by " + exprStr(e) + ".IsSpatial()"
					}
				}
			}
			return false, ""
		}
		ord := map[string]int{}
		ast.Inspect(fi.Decl.Body, func(x ast.Node) bool {
			call, ok := x.(*ast.CallExpr)
			if !ok {
				return true
			}
			se, ok := ast.Unparen(call.Fun).(*ast.SelectorExpr)
			if !ok || !positional[se.Sel.Name] {
				return true
			}
			// E.Geo().M(…) or E.M(…) (Object.Rect) with E possibly the previous object
			var e ast.Expr
			recv := ast.Unparen(se.X)
			// a local that names the geometry once: selfGeo := obj.Geo()
			if id, ok := recv.(*ast.Ident); ok {
				if v := valueOf(info, fi.Decl.Body, id); v != ast.Expr(id) {
					if gc, ok := ast.Unparen(v).(*ast.CallExpr); ok {
						if gse, ok := ast.Unparen(gc.Fun).(*ast.SelectorExpr); ok && gse.Sel.Name == "Geo" {
							recv = gc
						}
					}
				}
			}
			if gc, ok := recv.(*ast.CallExpr); ok {
				if gse, ok := ast.Unparen(gc.Fun).(*ast.SelectorExpr); ok && gse.Sel.Name == "Geo" {
					e = gse.X
				}
			} else {
				e = se.X
			}
			if e == nil || !isOldExpr(info, e) {
				return true
			}
			n++
			base := nm + "→" + exprStr(se.X) + "." + se.Sel.Name + "()"
			ord[base]++
			key := base
			if ord[base] > 1 {
				key = base + "#" + strings.Repeat("I", ord[base])
			}
			body := fi.Decl.Body
			lit := enclosingFuncLit(c.Program, call)
			if lit != nil {
				body = lit.Body
			}
			fg := graph(body)
			l := fg.LocOfOuter(call)
			okk, why := false, ""
			if l.Valid() {
				l.Node = call // the facts inside the condition the call stands in count as well
				okk, why = spatialAt(fg, l, e)
			}
			if !okk && lit != nil {
				// inside a literal: what dominates the literal in the enclosing function holds as well
				ofg := graph(fi.Decl.Body)
				if ol := ofg.LocOfOuter(lit); ol.Valid() {
					okk, why = spatialAt(ofg, ol, e)
				}
			}
			if !okk {
				// a parameter: every call in the fence evaluation passes an object that is known to have a position there
				if id, isId := ast.Unparen(e).(*ast.Ident); isId {
					sig := fi.Obj.Type().(*types.Signature)
					for i := 0; i < sig.Params().Len(); i++ {
						if sig.Params().At(i) != info.ObjectOf(id) {
							continue
						}
						sites, all := 0, true
						for _, caller := range reach {
							cinfo := caller.Info()
							var cfgc *FlowGraph
							ast.Inspect(caller.Decl.Body, func(n ast.Node) bool {
								cc, ok := n.(*ast.CallExpr)
								if !ok || callee(cinfo, cc) != fi.Obj || i >= len(cc.Args) {
									return true
								}
								sites++
								if enclosingFuncLit(c.Program, cc) != nil {
									all = false
									return true
								}
								if cfgc == nil {
									cfgc = newFlowGraph(cinfo, caller.Decl.Body)
								}
								cl := cfgc.LocOfOuter(cc)
								good := false
								if cl.Valid() {
									for _, f := range cfgc.DominatingFacts(cl) {
										if f.Neg {
											continue
										}
										fc, ok := ast.Unparen(f.E).(*ast.CallExpr)
										if !ok {
											continue
										}
										g := callee(cinfo, fc)
										if g != nil && g.Name() == "objIsSpatial" && len(fc.Args) == 1 {
											if gc, ok := ast.Unparen(fc.Args[0]).(*ast.CallExpr); ok {
												if se2, ok := ast.Unparen(gc.Fun).(*ast.SelectorExpr); ok && se2.Sel.Name == "Geo" && sameExpr(cinfo, se2.X, cc.Args[i]) {
													good = true
												}
											}
										}
										if g != nil && g.Name() == "IsSpatial" {
											if se2, ok := ast.Unparen(fc.Fun).(*ast.SelectorExpr); ok && sameExpr(cinfo, se2.X, cc.Args[i]) {
												good = true
											}
										}
									}
								}
								if !good {
									all = false
								}
								return true
							})
						}
						if sites > 0 && all {
							okk, why = true, fmt.Sprintf("a parameter: at each of the %d calls the argument is dominated by a spatial test", sites)
						}
					}
				}
			}
			c.check(okk, key, call.Pos(), why, "the position of "+exprStr(e)+", which may be the previous value of the id, is used although nothing establishes that it has one: for a value stored with SET … STRING, Center() and Rect() are the zero point and Distance() is 0, so the fence treats it as an object at 0N 0E (neighbours of that point reported 'faraway', a 'cross' for fences between that point and the new position)")
			return true
		})
	}
	c.stat("positional_uses_of_the_previous_object", n)
}

func init() {
	register(&Rule{ID: "R20.neighbour-scan-complete", Props: []string{"C20"}, Floor: 1,
		Text: "'exactly the neighbours inside the radius': the per-candidate callback of the roaming fence's neighbour search (found by role: the literal handed to a Collection search method in fenceMatchNearbys) returns true on every path — it may skip a candidate but never ends the search; the order in which an index hands out candidates (by bounding box) is not the order of the distance the radius test uses (centre to centre), so stopping at the first candidate beyond the radius hides nearer ones behind an object with a large extent",
		Run:  ruleNeighbourScanComplete})
}

func ruleNeighbourScanComplete(c *Ctx) {
	fn, lit, _, _ := nearbysCallback(c)
	if fn == nil || lit == nil {
		c.und("anchors", 0, "the neighbour search callback of fenceMatchNearbys was not found")
		return
	}
	info := fn.Info()
	var stop *ast.ReturnStmt
	n := 0
	inspectNoLit(lit.Body, func(x ast.Node) bool {
		if r, ok := x.(*ast.ReturnStmt); ok {
			n++
			if len(r.Results) != 1 || boolConst(info, r.Results[0]) != '1' {
				stop = r
			}
		}
		return true
	})
	key := "fenceMatchNearbys/callback-never-stops"
	switch {
	case n == 0:
		c.und(key, lit.Pos(), "the callback has no return statement")
	case stop != nil:
		c.bad(key, stop.Pos(), "the neighbour search can be ended by its per-candidate callback (%s): candidates the index has not handed out yet are never examined, so neighbours inside the radius are missing from 'nearby' and from the set 'faraway' is computed from", "return "+exprStr(stop.Results[0]))
	default:
		c.ok(key, lit.Pos(), true, "all %d returns of the callback are `return true`: every candidate is examined", n)
	}
}
