package main

import (
	"fmt"
	"go/ast"
	"go/constant"
	"go/token"
	"go/types"
	"sort"
	"strings"
)

// DT — decision tables by path-sensitive constant propagation (C05).
//
// Some clauses of the properties are finite decision tables written out in the property itself
// ("inside->inside 'inside'; outside->inside 'enter' then 'inside'; …"). The function that implements
// such a table is loop-free up to a small retry loop and decides by comparing string constants and
// testing a handful of opaque boolean conditions. DT evaluates the function body abstractly: locals hold
// a string/int/bool constant, nil, a list of labelled elements, or "unknown" together with the symbolic
// text of the expression they came from; every boolean condition that does not evaluate to a constant is
// an *atom*. The scenario of a rule fixes some atoms and inputs (by the symbolic text, in which locals
// and parameters appear as their type or as the expression they were assigned from, so that names and
// aliases do not matter); every other atom is split both ways. The result is the set of leaves: for each
// consistent assignment of the atoms consulted on a path, the value the function returns and the calls it
// made. Nothing is executed: the values are abstract, the opaque conditions stay symbols, and the
// enumeration is the standard path-sensitive refinement of constant propagation on a finite domain.
// Anything outside the fragment (labels, goto, defer, a range over an unknown collection, a loop that
// does not end within the step bound) makes the leaf undecided, which the rules treat as a failure.

type dtKind byte

const (
	dtUnknown dtKind = iota
	dtStr
	dtBool
	dtInt
	dtNil
	dtList
	dtFunc
)

type dtVal struct {
	k   dtKind
	s   string
	b   bool
	i   int64
	l   []string // labels of the elements of a list
	sym string   // symbolic text (for unknown values: what they were computed from)
	lit *ast.FuncLit
}

func (v dtVal) label() string {
	switch v.k {
	case dtStr:
		return v.s
	case dtBool:
		return fmt.Sprint(v.b)
	case dtInt:
		return fmt.Sprint(v.i)
	case dtNil:
		return "nil"
	case dtList:
		return "[" + strings.Join(v.l, " ") + "]"
	case dtFunc:
		return "func"
	}
	return "?" + v.sym
}

type dtEvent struct {
	Kind   string // "call", "store"
	What   string
	Detail string
	Pos    token.Pos
}

type dtLeaf struct {
	Atoms     map[string]bool
	Order     []string
	Ret       []dtVal
	Returned  bool
	RetPos    token.Pos
	Events    []dtEvent
	Undecided string
}

func (l *dtLeaf) atomsStr() string {
	var parts []string
	for _, a := range l.Order {
		v := "F"
		if l.Atoms[a] {
			v = "T"
		}
		parts = append(parts, a+"="+v)
	}
	return strings.Join(parts, ", ")
}

type dtNeed struct{ atom string }
type dtStop struct{ why string }

type DTable struct {
	c    *Ctx
	fn   *FuncInfo
	info *types.Info
	// Bind: the scenario's value for an expression, identified by its symbolic text; ok=false leaves it to
	// the evaluation.
	Bind func(r *dtRun, e ast.Expr, sym string) (dtVal, bool)
	// Call: a model of a call (the arguments are evaluated); ok=false makes the result unknown.
	Call func(r *dtRun, call *ast.CallExpr, f *types.Func, args []dtVal) (dtVal, bool)
	// AtomName: a stable name for an atom; "" uses the symbolic text with an occurrence number.
	AtomName func(e ast.Expr, sym string) string
	// Inline: a function whose body is evaluated in place when it is called (a helper extracted from the
	// analysed function is still part of it); nil inlines nothing.
	Inline func(f *types.Func) bool
	// Fix: the scenario's truth value for an atom (by its name); ok=false splits the atom both ways.
	Fix       func(name string) (val bool, ok bool)
	noInline  map[*types.Func]bool // callees that turned out to lie outside the fragment
	MaxLeaves int
	MaxSteps  int
}

type dtRun struct {
	t      *DTable
	assign map[string]bool
	order  []string
	store  map[types.Object]dtVal
	fstore map[string]dtVal
	occ    map[string]int
	events []dtEvent
	steps  int
	ret    []dtVal
	retPos token.Pos
	depth  int
	tuple  []dtVal // the results of the last inlined call (for a, b := f())
}

type dtCtl int

const (
	ctlNext dtCtl = iota
	ctlBreak
	ctlContinue
	ctlReturn
)

// Run enumerates the leaves of the function body.
func (t *DTable) Run() []dtLeaf {
	if t.MaxLeaves == 0 {
		t.MaxLeaves = 4096
	}
	if t.MaxSteps == 0 {
		t.MaxSteps = 2000
	}
	type pending struct {
		atoms []string
		vals  []bool
	}
	work := []pending{{}}
	var leaves []dtLeaf
	for len(work) > 0 {
		p := work[len(work)-1]
		work = work[:len(work)-1]
		if len(leaves) >= t.MaxLeaves {
			leaves = append(leaves, dtLeaf{Undecided: fmt.Sprintf("more than %d leaves", t.MaxLeaves)})
			break
		}
		r := &dtRun{t: t, assign: map[string]bool{}, store: map[types.Object]dtVal{}, fstore: map[string]dtVal{}, occ: map[string]int{}}
		for i, a := range p.atoms {
			r.assign[a] = p.vals[i]
		}
		var need *dtNeed
		var stop *dtStop
		returned := false
		func() {
			defer func() {
				if x := recover(); x != nil {
					switch y := x.(type) {
					case dtNeed:
						need = &y
					case dtStop:
						stop = &y
					default:
						panic(x)
					}
				}
			}()
			returned = r.block(t.fn.Decl.Body.List) == ctlReturn
		}()
		if need != nil {
			for _, v := range []bool{false, true} {
				work = append(work, pending{append(append([]string(nil), p.atoms...), need.atom), append(append([]bool(nil), p.vals...), v)})
			}
			continue
		}
		lf := dtLeaf{Atoms: map[string]bool{}, Events: r.events, Ret: r.ret, Returned: returned, RetPos: r.retPos}
		for _, a := range r.order {
			lf.Atoms[a] = r.assign[a]
			lf.Order = append(lf.Order, a)
		}
		if stop != nil {
			lf.Undecided = stop.why
		}
		leaves = append(leaves, lf)
	}
	return leaves
}

func (r *dtRun) tick(n ast.Node) {
	r.steps++
	if r.steps > r.t.MaxSteps {
		panic(dtStop{fmt.Sprintf("no end within %d steps (at %s)", r.t.MaxSteps, r.t.c.posStr(n.Pos()))})
	}
}

func (r *dtRun) stop(n ast.Node, why string) {
	panic(dtStop{why + " at " + r.t.c.posStr(n.Pos())})
}

// atom resolves a boolean condition that did not evaluate to a constant.
func (r *dtRun) atom(e ast.Expr, sym string) bool {
	name := ""
	if r.t.AtomName != nil {
		name = r.t.AtomName(e, sym)
	}
	if name == "" {
		r.occ[sym]++
		name = sym
		if r.occ[sym] > 1 {
			name = fmt.Sprintf("%s#%d", sym, r.occ[sym])
		}
	}
	v, ok := r.assign[name]
	if !ok && r.t.Fix != nil {
		if fv, fixed := r.t.Fix(name); fixed {
			r.assign[name] = fv
			v, ok = fv, true
		}
	}
	if !ok {
		panic(dtNeed{name})
	}
	seen := false
	for _, a := range r.order {
		if a == name {
			seen = true
		}
	}
	if !seen {
		r.order = append(r.order, name)
	}
	return v
}

// sym: the symbolic text of an expression: locals appear as the expression they hold (when unknown), as
// their constant, or as their type; parameters as their type.
func (r *dtRun) sym(e ast.Expr) string {
	info := r.t.info
	switch x := e.(type) {
	case *ast.ParenExpr:
		return r.sym(x.X)
	case *ast.BasicLit:
		if tv, ok := info.Types[x]; ok && tv.Value != nil && tv.Value.Kind() == constant.String {
			return "⟨" + constant.StringVal(tv.Value) + "⟩"
		}
		return x.Value
	case *ast.Ident:
		if tv, ok := info.Types[x]; ok && tv.Value != nil {
			if tv.Value.Kind() == constant.String {
				return "⟨" + constant.StringVal(tv.Value) + "⟩"
			}
			return tv.Value.String()
		}
		o := info.ObjectOf(x)
		if v, ok := o.(*types.Var); ok && !v.IsField() && v.Pkg() != nil && v.Parent() != v.Pkg().Scope() {
			if sv, has := r.store[o]; has {
				switch sv.k {
				case dtUnknown:
					if sv.sym != "" {
						return sv.sym
					}
				case dtStr:
					return "⟨" + sv.s + "⟩"
				case dtBool, dtInt, dtNil:
					return sv.label()
				}
			}
			return "‹" + typeBaseName(v.Type()) + "›"
		}
		return x.Name
	case *ast.SelectorExpr:
		if _, isPkg := info.ObjectOf(identOf(x.X)).(*types.PkgName); isPkg {
			return types.ExprString(x)
		}
		return r.sym(x.X) + "." + x.Sel.Name
	case *ast.StarExpr:
		return "*" + r.sym(x.X)
	case *ast.UnaryExpr:
		return x.Op.String() + r.sym(x.X)
	case *ast.BinaryExpr:
		return r.sym(x.X) + " " + x.Op.String() + " " + r.sym(x.Y)
	case *ast.IndexExpr:
		return r.sym(x.X) + "[" + r.sym(x.Index) + "]"
	case *ast.SliceExpr:
		s := r.sym(x.X) + "["
		if x.Low != nil {
			s += r.sym(x.Low)
		}
		s += ":"
		if x.High != nil {
			s += r.sym(x.High)
		}
		return s + "]"
	case *ast.CallExpr:
		var args []string
		for _, a := range x.Args {
			args = append(args, r.sym(a))
		}
		fun := ""
		if f := callee(info, x); f != nil {
			if se, ok := ast.Unparen(x.Fun).(*ast.SelectorExpr); ok && f.Type().(*types.Signature).Recv() != nil {
				fun = r.sym(se.X) + "." + f.Name()
			} else {
				fun = f.Name()
			}
		} else {
			fun = r.sym(x.Fun)
		}
		return fun + "(" + strings.Join(args, ", ") + ")"
	}
	return types.ExprString(e)
}

func identOf(e ast.Expr) *ast.Ident {
	id, _ := ast.Unparen(e).(*ast.Ident)
	if id == nil {
		return &ast.Ident{Name: "_"}
	}
	return id
}

func typeBaseName(t types.Type) string {
	for {
		if p, ok := t.(*types.Pointer); ok {
			t = p.Elem()
			continue
		}
		break
	}
	if n, ok := t.(*types.Named); ok {
		return n.Obj().Name()
	}
	return t.String()
}

func (r *dtRun) isBoolExpr(e ast.Expr) bool {
	t := r.t.info.TypeOf(e)
	if t == nil {
		return false
	}
	b, ok := t.Underlying().(*types.Basic)
	return ok && b.Info()&types.IsBoolean != 0
}

func (r *dtRun) evalBool(e ast.Expr) bool {
	v := r.eval(e)
	if v.k == dtBool {
		return v.b
	}
	return r.atom(e, r.sym(e))
}

func zeroOf(t types.Type) dtVal {
	switch u := t.Underlying().(type) {
	case *types.Basic:
		switch {
		case u.Info()&types.IsString != 0:
			return dtVal{k: dtStr}
		case u.Info()&types.IsBoolean != 0:
			return dtVal{k: dtBool}
		case u.Info()&types.IsInteger != 0:
			return dtVal{k: dtInt}
		}
	case *types.Slice:
		return dtVal{k: dtList}
	case *types.Pointer, *types.Map, *types.Interface, *types.Signature, *types.Chan:
		return dtVal{k: dtNil}
	}
	return dtVal{}
}

// eval evaluates an expression; a boolean expression always yields a constant (atoms are split).
func (r *dtRun) eval(e ast.Expr) dtVal {
	e = ast.Unparen(e)
	info := r.t.info
	r.tick(e)
	if r.t.Bind != nil {
		if v, ok := r.t.Bind(r, e, r.sym(e)); ok {
			return v
		}
	}
	v := r.eval1(e)
	if v.k == dtUnknown {
		if v.sym == "" {
			v.sym = r.sym(e)
		}
		if r.isBoolExpr(e) {
			if tv, ok := info.Types[e]; !ok || !tv.IsType() {
				return dtVal{k: dtBool, b: r.atom(e, v.sym)}
			}
		}
	}
	return v
}

func (r *dtRun) eval1(e ast.Expr) dtVal {
	info := r.t.info
	if tv, ok := info.Types[e]; ok {
		if tv.Value != nil {
			switch tv.Value.Kind() {
			case constant.String:
				return dtVal{k: dtStr, s: constant.StringVal(tv.Value)}
			case constant.Bool:
				return dtVal{k: dtBool, b: constant.BoolVal(tv.Value)}
			case constant.Int:
				if i, ok := constant.Int64Val(tv.Value); ok {
					return dtVal{k: dtInt, i: i}
				}
			}
			return dtVal{}
		}
		if tv.IsNil() {
			return dtVal{k: dtNil}
		}
	}
	switch x := e.(type) {
	case *ast.FuncLit:
		return dtVal{k: dtFunc, lit: x}
	case *ast.Ident:
		if v, ok := r.store[info.ObjectOf(x)]; ok {
			return v
		}
		return dtVal{}
	case *ast.SelectorExpr:
		if v, ok := r.fstore[r.sym(x)]; ok {
			return v
		}
		return dtVal{}
	case *ast.UnaryExpr:
		if x.Op == token.NOT {
			return dtVal{k: dtBool, b: !r.evalBool(x.X)}
		}
		if x.Op == token.SUB {
			if v := r.eval(x.X); v.k == dtInt {
				return dtVal{k: dtInt, i: -v.i}
			}
		}
		return dtVal{}
	case *ast.BinaryExpr:
		switch x.Op {
		case token.LAND:
			if !r.evalBool(x.X) {
				return dtVal{k: dtBool, b: false}
			}
			return dtVal{k: dtBool, b: r.evalBool(x.Y)}
		case token.LOR:
			if r.evalBool(x.X) {
				return dtVal{k: dtBool, b: true}
			}
			return dtVal{k: dtBool, b: r.evalBool(x.Y)}
		}
		a, b := r.eval(x.X), r.eval(x.Y)
		switch x.Op {
		case token.EQL, token.NEQ:
			eq, known := false, false
			switch {
			case a.k == dtStr && b.k == dtStr:
				eq, known = a.s == b.s, true
			case a.k == dtInt && b.k == dtInt:
				eq, known = a.i == b.i, true
			case a.k == dtBool && b.k == dtBool:
				eq, known = a.b == b.b, true
			case a.k == dtNil && b.k == dtNil:
				eq, known = true, true
			case a.k == dtList && b.k == dtNil && len(a.l) > 0, a.k == dtNil && b.k == dtList && len(b.l) > 0:
				eq, known = false, true
			}
			if known {
				return dtVal{k: dtBool, b: eq == (x.Op == token.EQL)}
			}
		case token.LSS, token.LEQ, token.GTR, token.GEQ:
			if a.k == dtInt && b.k == dtInt {
				var res bool
				switch x.Op {
				case token.LSS:
					res = a.i < b.i
				case token.LEQ:
					res = a.i <= b.i
				case token.GTR:
					res = a.i > b.i
				case token.GEQ:
					res = a.i >= b.i
				}
				return dtVal{k: dtBool, b: res}
			}
		case token.ADD:
			if a.k == dtStr && b.k == dtStr {
				return dtVal{k: dtStr, s: a.s + b.s}
			}
			if a.k == dtInt && b.k == dtInt {
				return dtVal{k: dtInt, i: a.i + b.i}
			}
		case token.SUB:
			if a.k == dtInt && b.k == dtInt {
				return dtVal{k: dtInt, i: a.i - b.i}
			}
		}
		return dtVal{}
	case *ast.CompositeLit:
		if _, ok := info.TypeOf(x).Underlying().(*types.Slice); ok {
			out := dtVal{k: dtList}
			for _, el := range x.Elts {
				if _, isKV := el.(*ast.KeyValueExpr); isKV {
					return dtVal{}
				}
				out.l = append(out.l, r.eval(el).label())
			}
			return out
		}
		return dtVal{}
	case *ast.CallExpr:
		// conversions
		if tv, ok := info.Types[x.Fun]; ok && tv.IsType() && len(x.Args) == 1 {
			v := r.eval(x.Args[0])
			if v.k == dtStr || v.k == dtUnknown {
				return v
			}
			return dtVal{}
		}
		if id, ok := ast.Unparen(x.Fun).(*ast.Ident); ok {
			if b, isB := info.Uses[id].(*types.Builtin); isB {
				switch b.Name() {
				case "len":
					v := r.eval(x.Args[0])
					switch v.k {
					case dtList:
						return dtVal{k: dtInt, i: int64(len(v.l))}
					case dtStr:
						return dtVal{k: dtInt, i: int64(len(v.s))}
					case dtNil:
						return dtVal{k: dtInt}
					}
					return dtVal{}
				case "append":
					base := r.eval(x.Args[0])
					if base.k == dtNil {
						base = dtVal{k: dtList}
					}
					if base.k != dtList || x.Ellipsis.IsValid() {
						for _, a := range x.Args[1:] {
							r.eval(a)
						}
						return dtVal{}
					}
					out := dtVal{k: dtList, l: append([]string(nil), base.l...)}
					for _, a := range x.Args[1:] {
						out.l = append(out.l, r.eval(a).label())
					}
					return out
				}
				for _, a := range x.Args {
					if tv, ok := info.Types[a]; !ok || !tv.IsType() {
						r.eval(a)
					}
				}
				return dtVal{}
			}
		}
		var args []dtVal
		for _, a := range x.Args {
			args = append(args, r.eval(a))
		}
		// a local closure (wanted := func(d string) bool {…}): its body is part of the function
		if id, ok := ast.Unparen(x.Fun).(*ast.Ident); ok && r.depth < 3 {
			if fv, ok := r.store[info.ObjectOf(id)]; ok && fv.k == dtFunc && fv.lit != nil && !x.Ellipsis.IsValid() {
				k := 0
				bound := true
				for _, fld := range fv.lit.Type.Params.List {
					for _, nm := range fld.Names {
						if k < len(args) {
							r.store[info.ObjectOf(nm)] = args[k]
						} else {
							bound = false
						}
						k++
					}
					if len(fld.Names) == 0 {
						k++
					}
				}
				if bound && k == len(args) {
					if fv.lit.Type.Results != nil {
						for _, fld := range fv.lit.Type.Results.List {
							for _, nm := range fld.Names {
								if o := info.ObjectOf(nm); o != nil {
									r.store[o] = zeroOf(o.Type())
								}
							}
						}
					}
					saveRet, savePos := r.ret, r.retPos
					r.depth++
					ctl := r.block(fv.lit.Body.List)
					r.depth--
					res := r.ret
					if ctl != ctlReturn {
						res = nil
					}
					if ctl == ctlReturn && len(res) == 0 && fv.lit.Type.Results != nil {
						for _, fld := range fv.lit.Type.Results.List {
							for _, nm := range fld.Names {
								res = append(res, r.store[info.ObjectOf(nm)])
							}
						}
					}
					r.ret, r.retPos = saveRet, savePos
					r.tuple = res
					if len(res) > 0 {
						return res[0]
					}
					return dtVal{sym: r.sym(x)}
				}
			}
		}
		f := callee(info, x)
		what := r.sym(x)
		r.events = append(r.events, dtEvent{Kind: "call", What: what, Pos: x.Pos()})
		if r.t.Call != nil {
			if v, ok := r.t.Call(r, x, f, args); ok {
				return v
			}
		}
		if f != nil && r.t.Inline != nil && !r.t.noInline[f] && r.t.Inline(f) && r.depth < 3 {
			if fi := r.t.c.FuncOf(f); fi != nil && fi.Decl.Body != nil && fi.Info() == info {
				sig := f.Type().(*types.Signature)
				if !sig.Variadic() && sig.Params().Len() == len(args) {
					for i := 0; i < sig.Params().Len(); i++ {
						r.store[sig.Params().At(i)] = args[i]
					}
					if sig.Recv() != nil {
						if se, ok := ast.Unparen(x.Fun).(*ast.SelectorExpr); ok {
							rv := r.eval(se.X)
							if rv.k == dtUnknown && rv.sym == "" {
								rv.sym = r.sym(se.X)
							}
							r.store[sig.Recv()] = rv
						}
					}
					// named results start as zero values
					for i := 0; i < sig.Results().Len(); i++ {
						if rvv := sig.Results().At(i); rvv.Name() != "" && rvv.Name() != "_" {
							r.store[rvv] = zeroOf(rvv.Type())
						}
					}
					saveRet, savePos := r.ret, r.retPos
					// a callee outside the evaluated fragment is opaque: undo and fall back
					snapStore := map[types.Object]dtVal{}
					for k, v := range r.store {
						snapStore[k] = v
					}
					snapF := map[string]dtVal{}
					for k, v := range r.fstore {
						snapF[k] = v
					}
					nEvents, depth0 := len(r.events), r.depth
					var ctl dtCtl
					failed := false
					func() {
						defer func() {
							if x := recover(); x != nil {
								if _, isStop := x.(dtStop); isStop {
									failed = true
									return
								}
								panic(x)
							}
						}()
						r.depth++
						ctl = r.block(fi.Decl.Body.List)
						r.depth--
					}()
					if failed {
						if r.t.noInline == nil {
							r.t.noInline = map[*types.Func]bool{}
						}
						r.t.noInline[f] = true
						r.store, r.fstore, r.events, r.depth = snapStore, snapF, r.events[:nEvents], depth0
						r.ret, r.retPos = saveRet, savePos
						return dtVal{sym: what}
					}
					res := r.ret
					if ctl != ctlReturn {
						res = nil
					}
					if ctl == ctlReturn && len(res) == 0 && sig.Results().Len() > 0 {
						// bare return with named results
						for i := 0; i < sig.Results().Len(); i++ {
							res = append(res, r.store[sig.Results().At(i)])
						}
					}
					r.ret, r.retPos = saveRet, savePos
					r.tuple = res
					if len(res) > 0 {
						return res[0]
					}
					return dtVal{sym: what}
				}
			}
		}
		return dtVal{sym: what}
	}
	return dtVal{}
}

func (r *dtRun) assignTo(lhs ast.Expr, v dtVal, define bool) {
	lhs = ast.Unparen(lhs)
	info := r.t.info
	switch x := lhs.(type) {
	case *ast.Ident:
		if x.Name == "_" {
			return
		}
		if o := info.ObjectOf(x); o != nil {
			r.store[o] = v
		}
	case *ast.SelectorExpr:
		key := r.sym(x)
		r.fstore[key] = v
		r.events = append(r.events, dtEvent{Kind: "store", What: key, Detail: v.label(), Pos: x.Pos()})
	default:
		// element stores and the like: evaluated for their atoms, not tracked
	}
}

func (r *dtRun) block(list []ast.Stmt) dtCtl {
	for _, s := range list {
		if c := r.stmt(s); c != ctlNext {
			return c
		}
	}
	return ctlNext
}

func (r *dtRun) stmt(s ast.Stmt) dtCtl {
	info := r.t.info
	r.tick(s)
	switch x := s.(type) {
	case *ast.BlockStmt:
		return r.block(x.List)
	case *ast.EmptyStmt:
		return ctlNext
	case *ast.ExprStmt:
		r.eval(x.X)
		return ctlNext
	case *ast.DeclStmt:
		gd, ok := x.Decl.(*ast.GenDecl)
		if !ok {
			return ctlNext
		}
		for _, sp := range gd.Specs {
			vs, ok := sp.(*ast.ValueSpec)
			if !ok {
				continue
			}
			for i, nm := range vs.Names {
				var v dtVal
				switch {
				case i < len(vs.Values) && len(vs.Values) == len(vs.Names):
					v = r.eval(vs.Values[i])
				case len(vs.Values) == 0:
					if o := info.ObjectOf(nm); o != nil {
						v = zeroOf(o.Type())
					}
				}
				r.assignTo(nm, v, true)
			}
		}
		return ctlNext
	case *ast.AssignStmt:
		switch {
		case x.Tok != token.ASSIGN && x.Tok != token.DEFINE:
			// op-assignment: only integers are followed
			if len(x.Lhs) == 1 && len(x.Rhs) == 1 {
				a, b := r.eval(x.Lhs[0]), r.eval(x.Rhs[0])
				v := dtVal{}
				if a.k == dtInt && b.k == dtInt {
					switch x.Tok {
					case token.ADD_ASSIGN:
						v = dtVal{k: dtInt, i: a.i + b.i}
					case token.SUB_ASSIGN:
						v = dtVal{k: dtInt, i: a.i - b.i}
					}
				}
				if a.k == dtStr && b.k == dtStr && x.Tok == token.ADD_ASSIGN {
					v = dtVal{k: dtStr, s: a.s + b.s}
				}
				r.assignTo(x.Lhs[0], v, false)
			}
		case len(x.Rhs) == 1 && len(x.Lhs) > 1:
			// tuple: the components of one call (or map lookup) are separate symbols
			r.tuple = nil
			base := r.eval(x.Rhs[0])
			if len(r.tuple) == len(x.Lhs) {
				tup := r.tuple
				r.tuple = nil
				for i, l := range x.Lhs {
					r.assignTo(l, tup[i], x.Tok == token.DEFINE)
				}
				return ctlNext
			}
			bs := base.sym
			if bs == "" {
				bs = r.sym(x.Rhs[0])
			}
			tup, _ := info.TypeOf(x.Rhs[0]).(*types.Tuple)
			for i, l := range x.Lhs {
				if id, ok := ast.Unparen(l).(*ast.Ident); ok && id.Name == "_" {
					continue
				}
				v := dtVal{sym: fmt.Sprintf("%s·%d", bs, i)}
				if r.t.Bind != nil {
					if bv, ok := r.t.Bind(r, x.Rhs[0], v.sym); ok {
						v = bv
					}
				}
				var et types.Type
				if tup != nil && i < tup.Len() {
					et = tup.At(i).Type()
				} else if i == 1 {
					et = types.Typ[types.Bool] // v, ok := m[k]
				}
				if v.k == dtUnknown && et != nil {
					if b, ok := et.Underlying().(*types.Basic); ok && b.Info()&types.IsBoolean != 0 {
						v = dtVal{k: dtBool, b: r.atom(x.Rhs[0], v.sym)}
					}
				}
				r.assignTo(l, v, x.Tok == token.DEFINE)
			}
		default:
			vals := make([]dtVal, len(x.Rhs))
			for i, e := range x.Rhs {
				vals[i] = r.eval(e)
			}
			for i, l := range x.Lhs {
				if i < len(vals) {
					r.assignTo(l, vals[i], x.Tok == token.DEFINE)
				}
			}
		}
		return ctlNext
	case *ast.IncDecStmt:
		v := r.eval(x.X)
		if v.k == dtInt {
			if x.Tok == token.INC {
				v.i++
			} else {
				v.i--
			}
			r.assignTo(x.X, v, false)
		} else {
			r.assignTo(x.X, dtVal{}, false)
		}
		return ctlNext
	case *ast.IfStmt:
		if x.Init != nil {
			if c := r.stmt(x.Init); c != ctlNext {
				return c
			}
		}
		if r.evalBool(x.Cond) {
			return r.block(x.Body.List)
		}
		if x.Else != nil {
			return r.stmt(x.Else)
		}
		return ctlNext
	case *ast.ForStmt:
		if x.Init != nil {
			r.stmt(x.Init)
		}
		for {
			r.tick(x)
			if x.Cond != nil && !r.evalBool(x.Cond) {
				return ctlNext
			}
			switch r.block(x.Body.List) {
			case ctlBreak:
				return ctlNext
			case ctlReturn:
				return ctlReturn
			}
			if x.Post != nil {
				r.stmt(x.Post)
			}
		}
	case *ast.RangeStmt:
		v := r.eval(x.X)
		if v.k == dtNil {
			return ctlNext
		}
		if v.k != dtList {
			r.stop(x, "range over a collection whose length is not known ("+r.sym(x.X)+")")
		}
		for i, el := range v.l {
			if x.Key != nil {
				r.assignTo(x.Key, dtVal{k: dtInt, i: int64(i)}, true)
			}
			if x.Value != nil {
				ev := dtVal{sym: el}
				if !strings.HasPrefix(el, "?") {
					ev = dtVal{k: dtStr, s: el}
				} else {
					ev.sym = strings.TrimPrefix(el, "?")
				}
				r.assignTo(x.Value, ev, true)
			}
			switch r.block(x.Body.List) {
			case ctlBreak:
				return ctlNext
			case ctlReturn:
				return ctlReturn
			}
		}
		return ctlNext
	case *ast.SwitchStmt:
		if x.Init != nil {
			r.stmt(x.Init)
		}
		var tag dtVal
		if x.Tag != nil {
			tag = r.eval(x.Tag)
		}
		var chosen *ast.CaseClause
		var dflt *ast.CaseClause
	clauses:
		for _, cs := range x.Body.List {
			cc := cs.(*ast.CaseClause)
			if cc.List == nil {
				dflt = cc
				continue
			}
			for _, ce := range cc.List {
				hit := false
				if x.Tag == nil {
					hit = r.evalBool(ce)
				} else {
					cv := r.eval(ce)
					switch {
					case tag.k == dtStr && cv.k == dtStr:
						hit = tag.s == cv.s
					case tag.k == dtInt && cv.k == dtInt:
						hit = tag.i == cv.i
					case tag.k == dtBool && cv.k == dtBool:
						hit = tag.b == cv.b
					default:
						hit = r.atom(ce, r.sym(x.Tag)+" == "+r.sym(ce))
					}
				}
				if hit {
					chosen = cc
					break clauses
				}
			}
		}
		if chosen == nil {
			chosen = dflt
		}
		if chosen == nil {
			return ctlNext
		}
		for _, st := range chosen.Body {
			if br, ok := st.(*ast.BranchStmt); ok && br.Tok == token.FALLTHROUGH {
				r.stop(br, "fallthrough")
			}
		}
		switch c := r.block(chosen.Body); c {
		case ctlBreak:
			return ctlNext
		default:
			return c
		}
	case *ast.ReturnStmt:
		r.ret = nil
		for _, e := range x.Results {
			r.ret = append(r.ret, r.eval(e))
		}
		r.retPos = x.Pos()
		return ctlReturn
	case *ast.BranchStmt:
		if x.Label != nil {
			r.stop(x, "labelled branch")
		}
		switch x.Tok {
		case token.BREAK:
			return ctlBreak
		case token.CONTINUE:
			return ctlContinue
		}
		r.stop(x, "goto")
	default:
		r.stop(s, fmt.Sprintf("statement form %T is outside the evaluated fragment", s))
	}
	return ctlNext
}

// sortedAtoms: for messages.
func sortedAtoms(m map[string]bool) []string {
	var out []string
	for k := range m {
		out = append(out, k)
	}
	sort.Strings(out)
	return out
}
