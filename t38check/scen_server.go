package main

import (
	"go/ast"
	"go/token"
	"go/types"
)

// serverScenario: the atoms of tile38's gate conditions.
//
//	follower     s.config.followHost() != ""
//	readonly     s.config.readOnly()
//	caughtup     s.caughtUpOnce()
//	caughtuplive s.caughtUp()
//	requirepass  s.config.requirePass() != ""
//	authd        client.authd
//	msgauth      msg.Auth != ""
//	loaded       s.loadedAndReady.Load()
//
// and the command: a comparison of msg.Command() (or a local defined once as it) with a constant, as an
// expression or as `tag == case` of a switch, is decided by cmd; with generic=true the command is one that
// no constant in the function names.
func (c *Ctx) serverScenario(vals map[string]byte, cmd string, generic bool) Scenario {
	authd := c.Field("internal/server", "Client", "authd")
	msgAuth := c.Field("internal/server", "Message", "Auth")
	loaded := c.Field("internal/server", "Server", "loadedAndReady")
	get := func(k string, neg bool) byte {
		v, ok := vals[k]
		if !ok || v == '?' {
			return '?'
		}
		if neg {
			if v == '1' {
				return '0'
			}
			return '1'
		}
		return v
	}
	// The command of the scenario is the value of msg.Command() at the entry of the function. A call that may
	// rewrite the message (TIMEOUT strips its prefix: rewriteTimeoutMsg assigns msg.Args) ends that: from there
	// on msg.Command() is unknown on this path, while a local that received it earlier keeps the entry value.
	mutators := c.messageMutators()
	return Scenario{
		Mark: func(fg *FlowGraph) func(n ast.Node, facts map[identFact]bool) map[identFact]bool {
			info := fg.Info
			return func(n ast.Node, facts map[identFact]bool) map[identFact]bool {
				set := func(k identFact, v bool) {
					nf := map[identFact]bool{}
					for kk, vv := range facts {
						nf[kk] = vv
					}
					nf[k] = v
					facts = nf
				}
				// x := msg.Command() while the message is unchanged: x holds the entry command
				if as, ok := n.(*ast.AssignStmt); ok && len(as.Lhs) == len(as.Rhs) {
					for i, l := range as.Lhs {
						if id, ok := ast.Unparen(l).(*ast.Ident); ok && isCommandCall(info, as.Rhs[i]) && !facts[identFact{msgRewritten, false}] {
							if o := info.ObjectOf(id); o != nil {
								set(identFact{o, false}, true)
							}
						}
					}
				}
				// a rewrite counts once the command has been observed on this path (the scenario fixes the value
				// the function first sees: what happens to the raw arguments before that is part of the input)
				observes := false
				inspectNoLit(n, func(m ast.Node) bool {
					if call, ok := m.(*ast.CallExpr); ok {
						if isCommandCall(info, call) {
							observes = true
						}
						if f := callee(info, call); f != nil && mutators[f] && facts[identFact{cmdObserved, false}] {
							set(identFact{msgRewritten, false}, true)
						}
					}
					if as, ok := m.(*ast.AssignStmt); ok {
						for _, l := range as.Lhs {
							l = ast.Unparen(l)
							if ix, ok := l.(*ast.IndexExpr); ok {
								l = ix.X
							}
							if f := selField(info, l); f != nil && fieldOfMessage(c.Program, f) && facts[identFact{cmdObserved, false}] {
								set(identFact{msgRewritten, false}, true)
							}
						}
					}
					return true
				})
				if observes && !facts[identFact{cmdObserved, false}] {
					set(identFact{cmdObserved, false}, true)
				}
				return facts
			}
		},
		Atom: func(fg *FlowGraph) func(e ast.Expr) byte {
			info := fg.Info
			srvCall := func(x ast.Expr, name string) bool {
				call, ok := ast.Unparen(x).(*ast.CallExpr)
				if !ok {
					return false
				}
				f := callee(info, call)
				return f != nil && f.Name() == name && f.Pkg() != nil && f.Pkg().Path() == modPath+"/internal/server"
			}
			// isCmd: the expression denotes the entry command on this path
			isCmd := func(x ast.Expr) bool {
				x = ast.Unparen(x)
				if isCommandCall(info, x) {
					return !fg.curFacts[identFact{msgRewritten, false}]
				}
				if id, ok := x.(*ast.Ident); ok {
					if o := info.ObjectOf(id); o != nil && isStringType(o.Type()) {
						return fg.curFacts[identFact{o, false}]
					}
				}
				return false
			}
			return func(e ast.Expr) byte {
				e = ast.Unparen(e)
				switch x := e.(type) {
				case *ast.SelectorExpr:
					if authd != nil && selField(info, x) == authd {
						return get("authd", false)
					}
				case *ast.CallExpr:
					switch {
					case srvCall(x, "readOnly"):
						return get("readonly", false)
					case srvCall(x, "caughtUpOnce"):
						return get("caughtup", false)
					case srvCall(x, "caughtUp"):
						return get("caughtuplive", false)
					}
					if se, ok := ast.Unparen(x.Fun).(*ast.SelectorExpr); ok && se.Sel.Name == "Load" && loaded != nil && selField(info, se.X) == loaded {
						return get("loaded", false)
					}
				case *ast.BinaryExpr:
					if x.Op != token.EQL && x.Op != token.NEQ {
						return '?'
					}
					for _, side := range [][2]ast.Expr{{x.X, x.Y}, {x.Y, x.X}} {
						s, isConst := constString(info, side[1])
						if !isConst {
							continue
						}
						if s == "" {
							switch {
							case srvCall(side[0], "followHost"):
								return get("follower", x.Op == token.EQL)
							case srvCall(side[0], "requirePass"):
								return get("requirepass", x.Op == token.EQL)
							case msgAuth != nil && selField(info, side[0]) == msgAuth:
								return get("msgauth", x.Op == token.EQL)
							}
						}
						if isCmd(side[0]) {
							if !generic && cmd == "" {
								return '?'
							}
							eq := !generic && s == cmd
							if eq == (x.Op == token.EQL) {
								return '1'
							}
							return '0'
						}
					}
				}
				return '?'
			}
		},
	}
}

// msgRewritten marks, among the facts of a path, that the message may have been rewritten.
var msgRewritten types.Object = types.NewVar(token.NoPos, nil, "§message-rewritten", types.Typ[types.Bool])

// cmdObserved marks that msg.Command() has been evaluated on this path.
var cmdObserved types.Object = types.NewVar(token.NoPos, nil, "§command-observed", types.Typ[types.Bool])

func fieldOfMessage(c *Program, f *types.Var) bool {
	return f == c.Field("internal/server", "Message", "Args") || f == c.Field("internal/server", "Message", "_command")
}

var msgMutatorCache map[*types.Func]bool

// messageMutators: functions of internal/server that assign Args or _command of a *Message parameter
// (directly, or by calling such a function with it).
func (c *Program) messageMutators() map[*types.Func]bool {
	if msgMutatorCache != nil {
		return msgMutatorCache
	}
	out := map[*types.Func]bool{}
	for changed := true; changed; {
		changed = false
		for _, fn := range c.AllFuncs("internal/server") {
			if out[fn.Obj] {
				continue
			}
			info := fn.Info()
			params := map[types.Object]bool{}
			for _, p := range fn.Decl.Type.Params.List {
				for _, nm := range p.Names {
					if o := info.ObjectOf(nm); o != nil {
						if pt, ok := o.Type().(*types.Pointer); ok && isNamedType(pt.Elem(), modPath+"/internal/server", "Message") {
							params[o] = true
						}
					}
				}
			}
			if len(params) == 0 {
				continue
			}
			hit := false
			ast.Inspect(fn.Decl.Body, func(n ast.Node) bool {
				switch x := n.(type) {
				case *ast.AssignStmt:
					for _, l := range x.Lhs {
						l = ast.Unparen(l)
						if ix, ok := l.(*ast.IndexExpr); ok {
							l = ix.X
						}
						if se, ok := ast.Unparen(l).(*ast.SelectorExpr); ok && fieldOfMessage(c, selField(info, se)) {
							if id, ok := ast.Unparen(se.X).(*ast.Ident); ok && params[info.ObjectOf(id)] {
								hit = true
							}
						}
					}
				case *ast.CallExpr:
					if f := callee(info, x); f != nil && out[f] {
						for _, a := range x.Args {
							if id, ok := ast.Unparen(a).(*ast.Ident); ok && params[info.ObjectOf(id)] {
								hit = true
							}
						}
					}
				}
				return true
			})
			if hit {
				out[fn.Obj] = true
				changed = true
			}
		}
	}
	msgMutatorCache = out
	return out
}

// fallsOutOfSwitch: in the scenario, can control leave the switch sw of fn (reach a statement after it)?
func (c *Ctx) fallsOutOfSwitch(fn *FuncInfo, sw *ast.SwitchStmt, sc Scenario) (bool, []ast.Node) {
	fg := newFlowGraph(fn.Info(), fn.Decl.Body)
	return c.scenReach(fg, fn.Decl.Body, sc, Loc{}, func(l Loc) bool { return l.Node.Pos() >= sw.End() }, nil)
}

// the three gates as scenarios: the situation in which the arm must refuse
var gateScenarios = map[string]map[string]byte{
	"follower":   {"follower": '1'},
	"readonly":   {"follower": '0', "readonly": '1'},
	"catchingup": {"follower": '1', "caughtup": '0'},
}

// armGated: the arm of sw that serves cmd never lets control leave the switch in the gate's situation.
func (c *Ctx) armGated(fn *FuncInfo, sw *ast.SwitchStmt, cmd, gate string) (bool, []ast.Node) {
	out, w := c.fallsOutOfSwitch(fn, sw, c.serverScenario(gateScenarios[gate], cmd, false))
	return !out, w
}

// isCommandTag: the tag of a switch over the command — msg.Command() itself, or a local that was defined once
// as msg.Command() with no rewrite of a message between that definition and the switch (so the local and the call
// denote the same value where the tag is evaluated).
func (p *Program) isCommandTag(fn *FuncInfo, e ast.Expr) bool {
	info := fn.Info()
	e = ast.Unparen(e)
	if isCommandCall(info, e) {
		return true
	}
	id, ok := e.(*ast.Ident)
	if !ok {
		return false
	}
	r := resolveLocal(info, fn.Decl.Body, id)
	if r == ast.Expr(id) || !isCommandCall(info, r) {
		return false
	}
	muts := p.messageMutators()
	rewrites := false
	ast.Inspect(fn.Decl.Body, func(n ast.Node) bool {
		// only what lies between the definition of the local and the evaluation of the tag can separate them
		if n == nil || n.End() <= r.Pos() || n.Pos() >= e.Pos() {
			return n != nil && n.Pos() < e.Pos()
		}
		if call, ok := n.(*ast.CallExpr); ok {
			if f := callee(info, call); f != nil && muts[f] {
				rewrites = true
			}
		}
		if as, ok := n.(*ast.AssignStmt); ok {
			for _, l := range as.Lhs {
				l = ast.Unparen(l)
				if ix, ok := l.(*ast.IndexExpr); ok {
					l = ix.X
				}
				if f := selField(info, l); f != nil && fieldOfMessage(p, f) {
					rewrites = true
				}
			}
		}
		return true
	})
	return !rewrites
}
