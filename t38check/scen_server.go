package main

import (
	"go/ast"
	"go/token"
	"go/types"
)

// serverScenario: the atoms of tile38's gate conditions.
//
//	follower     s.config.followHost() != ""
//	readonly     s.config.readOnly()
//	caughtup     s.caughtUpOnce()
//	requirepass  s.config.requirePass() != ""
//	authd        client.authd
//	msgauth      msg.Auth != ""
//	loaded       s.loadedAndReady.Load()
//
// and the command: a comparison of msg.Command() (or a local defined once as it) with a constant, as an
// expression or as `tag == case` of a switch, is decided by cmd; with generic=true the command is one that
// no constant in the function names.
func (c *Ctx) serverScenario(vals map[string]byte, cmd string, generic bool) Scenario {
	authd := c.Field("internal/server", "Client", "authd")
	msgAuth := c.Field("internal/server", "Message", "Auth")
	loaded := c.Field("internal/server", "Server", "loadedAndReady")
	get := func(k string, neg bool) byte {
		v, ok := vals[k]
		if !ok || v == '?' {
			return '?'
		}
		if neg {
			if v == '1' {
				return '0'
			}
			return '1'
		}
		return v
	}
	return func(info *types.Info, body ast.Node) func(e ast.Expr) byte {
		srvCall := func(x ast.Expr, name string) bool {
			call, ok := ast.Unparen(x).(*ast.CallExpr)
			if !ok {
				return false
			}
			f := callee(info, call)
			return f != nil && f.Name() == name && f.Pkg() != nil && f.Pkg().Path() == modPath+"/internal/server"
		}
		isCmd := func(x ast.Expr) bool {
			x = ast.Unparen(x)
			if isCommandCall(info, x) {
				return true
			}
			if _, ok := x.(*ast.Ident); ok {
				return isCommandCall(info, resolveLocal(info, body, x))
			}
			return false
		}
		return func(e ast.Expr) byte {
			e = ast.Unparen(e)
			switch x := e.(type) {
			case *ast.SelectorExpr:
				if authd != nil && selField(info, x) == authd {
					return get("authd", false)
				}
			case *ast.CallExpr:
				switch {
				case srvCall(x, "readOnly"):
					return get("readonly", false)
				case srvCall(x, "caughtUpOnce"):
					return get("caughtup", false)
				}
				if se, ok := ast.Unparen(x.Fun).(*ast.SelectorExpr); ok && se.Sel.Name == "Load" && loaded != nil && selField(info, se.X) == loaded {
					return get("loaded", false)
				}
			case *ast.BinaryExpr:
				if x.Op != token.EQL && x.Op != token.NEQ {
					return '?'
				}
				for _, side := range [][2]ast.Expr{{x.X, x.Y}, {x.Y, x.X}} {
					s, isConst := constString(info, side[1])
					if !isConst {
						continue
					}
					if s == "" {
						switch {
						case srvCall(side[0], "followHost"):
							return get("follower", x.Op == token.EQL)
						case srvCall(side[0], "requirePass"):
							return get("requirepass", x.Op == token.EQL)
						case msgAuth != nil && selField(info, side[0]) == msgAuth:
							return get("msgauth", x.Op == token.EQL)
						}
					}
					if isCmd(side[0]) {
						if !generic && cmd == "" {
							return '?'
						}
						eq := !generic && s == cmd
						if eq == (x.Op == token.EQL) {
							return '1'
						}
						return '0'
					}
				}
			}
			return '?'
		}
	}
}

// fallsOutOfSwitch: in the scenario, can control leave the switch sw of fn (reach a statement after it)?
func (c *Ctx) fallsOutOfSwitch(fn *FuncInfo, sw *ast.SwitchStmt, sc Scenario) (bool, []ast.Node) {
	fg := newFlowGraph(fn.Info(), fn.Decl.Body)
	return c.scenReach(fg, fn.Decl.Body, sc, Loc{}, func(l Loc) bool { return l.Node.Pos() >= sw.End() }, nil)
}

// the three gates as scenarios: the situation in which the arm must refuse
var gateScenarios = map[string]map[string]byte{
	"follower":   {"follower": '1'},
	"readonly":   {"follower": '0', "readonly": '1'},
	"catchingup": {"follower": '1', "caughtup": '0'},
}

// armGated: the arm of sw that serves cmd never lets control leave the switch in the gate's situation.
func (c *Ctx) armGated(fn *FuncInfo, sw *ast.SwitchStmt, cmd, gate string) (bool, []ast.Node) {
	out, w := c.fallsOutOfSwitch(fn, sw, c.serverScenario(gateScenarios[gate], cmd, false))
	return !out, w
}
