package main

import (
	"go/ast"
	"go/types"

	"golang.org/x/tools/go/cfg"
)

// short aliases keep the rule files readable
type (
	astNode   = ast.Node
	astExpr   = ast.Expr
	astCall   = ast.CallExpr
	astSel    = ast.SelectorExpr
	astIdent  = ast.Ident
	cfgBlock  = cfg.Block
	typesFunc = types.Func
)

func unparen(e ast.Expr) ast.Expr { return ast.Unparen(e) }

func containsNode(root ast.Node, n ast.Node) bool {
	found := false
	ast.Inspect(root, func(x ast.Node) bool {
		if x == n {
			found = true
		}
		return !found
	})
	return found
}
