package main

import (
	"go/ast"
	"go/types"
	"strings"

	"golang.org/x/tools/go/cfg"
)

// short aliases keep the rule files readable
type (
	astNode   = ast.Node
	astExpr   = ast.Expr
	astCall   = ast.CallExpr
	astSel    = ast.SelectorExpr
	astIdent  = ast.Ident
	cfgBlock  = cfg.Block
	typesFunc = types.Func
)

func unparen(e ast.Expr) ast.Expr { return ast.Unparen(e) }

func containsNode(root ast.Node, n ast.Node) bool {
	found := false
	ast.Inspect(root, func(x ast.Node) bool {
		if x == n {
			found = true
		}
		return !found
	})
	return found
}

// calledOnlyFrom returns the functions of internal/server that are reached only through the seed
// functions: the seeds themselves, plus every function all of whose static call sites (in the whole
// repository) lie inside a function of the set (fixpoint). Used for roles that a helper inherits from its
// only callers (a step of the log replayer extracted into a method is still the log replayer).
func (p *Program) calledOnlyFrom(seeds ...string) map[*types.Func]bool {
	return p.calledOnlyFromIn("internal/server", seeds...)
}

// calledOnlyFromIn is calledOnlyFrom for the functions of another package.
func (p *Program) calledOnlyFromIn(pkgRel string, seeds ...string) map[*types.Func]bool {
	key := pkgRel + ":" + strings.Join(seeds, ",")
	if p.onlyFromCache == nil {
		p.onlyFromCache = map[string]map[*types.Func]bool{}
	}
	if m, ok := p.onlyFromCache[key]; ok {
		return m
	}
	set := map[*types.Func]bool{}
	for _, fn := range p.AllFuncs(pkgRel) {
		for _, sd := range seeds {
			if fn.Obj.Name() == sd {
				set[fn.Obj] = true
			}
		}
	}
	// callers: callee -> set of caller funcs (function values passed around count as a call from the referrer)
	callers := map[*types.Func]map[*types.Func]bool{}
	for _, rel := range p.RelPaths() {
		for _, fn := range p.AllFuncs(rel) {
			info := fn.Info()
			ast.Inspect(fn.Decl.Body, func(n ast.Node) bool {
				id, ok := n.(*ast.Ident)
				if !ok {
					return true
				}
				if f, ok := info.Uses[id].(*types.Func); ok && f != fn.Obj {
					if callers[f] == nil {
						callers[f] = map[*types.Func]bool{}
					}
					callers[f][fn.Obj] = true
				}
				return true
			})
		}
	}
	for changed := true; changed; {
		changed = false
		for _, fn := range p.AllFuncs(pkgRel) {
			if set[fn.Obj] || len(callers[fn.Obj]) == 0 {
				continue
			}
			all := true
			for cl := range callers[fn.Obj] {
				if !set[cl] {
					all = false
				}
			}
			if all {
				set[fn.Obj] = true
				changed = true
			}
		}
	}
	p.onlyFromCache[key] = set
	return set
}

// canonStr renders an expression with every local variable or parameter replaced by the base name of its
// type (‹Object›, ‹Hook›, …), so that a guard can be compared with an expected form without depending on
// what a maintainer chose to call the variable. Package-level objects, fields, methods and constants keep
// their names. Forms it does not know are rendered by types.ExprString.
func canonStr(info *types.Info, e ast.Expr) string {
	switch x := e.(type) {
	case *ast.Ident:
		if v, ok := info.ObjectOf(x).(*types.Var); ok && !v.IsField() && v.Parent() != nil && v.Pkg() != nil && v.Parent() != v.Pkg().Scope() {
			t := v.Type()
			for {
				if p, ok := t.(*types.Pointer); ok {
					t = p.Elem()
					continue
				}
				break
			}
			if n, ok := t.(*types.Named); ok {
				return "‹" + n.Obj().Name() + "›"
			}
			return "‹" + t.String() + "›"
		}
		return x.Name
	case *ast.ParenExpr:
		return "(" + canonStr(info, x.X) + ")"
	case *ast.SelectorExpr:
		return canonStr(info, x.X) + "." + x.Sel.Name
	case *ast.StarExpr:
		return "*" + canonStr(info, x.X)
	case *ast.UnaryExpr:
		return x.Op.String() + canonStr(info, x.X)
	case *ast.BinaryExpr:
		return canonStr(info, x.X) + " " + x.Op.String() + " " + canonStr(info, x.Y)
	case *ast.IndexExpr:
		return canonStr(info, x.X) + "[" + canonStr(info, x.Index) + "]"
	case *ast.CallExpr:
		var args []string
		for _, a := range x.Args {
			args = append(args, canonStr(info, a))
		}
		return canonStr(info, x.Fun) + "(" + strings.Join(args, ", ") + ")"
	}
	return types.ExprString(e)
}
