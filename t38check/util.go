package main

import (
	"go/ast"
	"go/constant"
	"go/types"
	"strings"

	"golang.org/x/tools/go/cfg"
)

// short aliases keep the rule files readable
type (
	astNode   = ast.Node
	astExpr   = ast.Expr
	astCall   = ast.CallExpr
	astSel    = ast.SelectorExpr
	astIdent  = ast.Ident
	cfgBlock  = cfg.Block
	typesFunc = types.Func
)

func unparen(e ast.Expr) ast.Expr { return ast.Unparen(e) }

func containsNode(root ast.Node, n ast.Node) bool {
	found := false
	ast.Inspect(root, func(x ast.Node) bool {
		if x == n {
			found = true
		}
		return !found
	})
	return found
}

// calledOnlyFrom returns the functions of internal/server that are reached only through the seed
// functions: the seeds themselves, plus every function all of whose static call sites (in the whole
// repository) lie inside a function of the set (fixpoint). Used for roles that a helper inherits from its
// only callers (a step of the log replayer extracted into a method is still the log replayer).
func (p *Program) calledOnlyFrom(seeds ...string) map[*types.Func]bool {
	return p.calledOnlyFromIn("internal/server", seeds...)
}

// calledOnlyFromIn is calledOnlyFrom for the functions of another package.
func (p *Program) calledOnlyFromIn(pkgRel string, seeds ...string) map[*types.Func]bool {
	key := pkgRel + ":" + strings.Join(seeds, ",")
	if p.onlyFromCache == nil {
		p.onlyFromCache = map[string]map[*types.Func]bool{}
	}
	if m, ok := p.onlyFromCache[key]; ok {
		return m
	}
	set := map[*types.Func]bool{}
	for _, fn := range p.AllFuncs(pkgRel) {
		for _, sd := range seeds {
			if fn.Obj.Name() == sd {
				set[fn.Obj] = true
			}
		}
	}
	// callers: callee -> set of caller funcs (function values passed around count as a call from the referrer)
	callers := map[*types.Func]map[*types.Func]bool{}
	for _, rel := range p.RelPaths() {
		for _, fn := range p.AllFuncs(rel) {
			info := fn.Info()
			ast.Inspect(fn.Decl.Body, func(n ast.Node) bool {
				id, ok := n.(*ast.Ident)
				if !ok {
					return true
				}
				if f, ok := info.Uses[id].(*types.Func); ok && f != fn.Obj {
					if callers[f] == nil {
						callers[f] = map[*types.Func]bool{}
					}
					callers[f][fn.Obj] = true
				}
				return true
			})
		}
	}
	for changed := true; changed; {
		changed = false
		for _, fn := range p.AllFuncs(pkgRel) {
			if set[fn.Obj] || len(callers[fn.Obj]) == 0 {
				continue
			}
			all := true
			for cl := range callers[fn.Obj] {
				if !set[cl] {
					all = false
				}
			}
			if all {
				set[fn.Obj] = true
				changed = true
			}
		}
	}
	p.onlyFromCache[key] = set
	return set
}

// canonStr renders an expression with every local variable or parameter replaced by the base name of its
// type (‹Object›, ‹Hook›, …), so that a guard can be compared with an expected form without depending on
// what a maintainer chose to call the variable. Package-level objects, fields, methods and constants keep
// their names. Forms it does not know are rendered by types.ExprString.
// canonBody: when set, canonStr renders a local that is defined exactly once in this body by a call or a
// selector (geo := o.Geo()) as that definition — the name of a repeated expression is not a different guard.
var canonBody ast.Node

func canonStr(info *types.Info, e ast.Expr) string {
	switch x := e.(type) {
	case *ast.Ident:
		if canonBody != nil {
			if v := valueOf(info, canonBody, x); v != ast.Expr(x) {
				switch ast.Unparen(v).(type) {
				case *ast.CallExpr, *ast.SelectorExpr:
					body := canonBody
					canonBody = nil // one level
					r := canonStr(info, v)
					canonBody = body
					return r
				}
			}
		}
		if v, ok := info.ObjectOf(x).(*types.Var); ok && !v.IsField() && v.Parent() != nil && v.Pkg() != nil && v.Parent() != v.Pkg().Scope() {
			t := v.Type()
			for {
				if p, ok := t.(*types.Pointer); ok {
					t = p.Elem()
					continue
				}
				break
			}
			if n, ok := t.(*types.Named); ok {
				return "‹" + n.Obj().Name() + "›"
			}
			return "‹" + t.String() + "›"
		}
		return x.Name
	case *ast.ParenExpr:
		return "(" + canonStr(info, x.X) + ")"
	case *ast.SelectorExpr:
		return canonStr(info, x.X) + "." + x.Sel.Name
	case *ast.StarExpr:
		return "*" + canonStr(info, x.X)
	case *ast.UnaryExpr:
		return x.Op.String() + canonStr(info, x.X)
	case *ast.BinaryExpr:
		return canonStr(info, x.X) + " " + x.Op.String() + " " + canonStr(info, x.Y)
	case *ast.IndexExpr:
		return canonStr(info, x.X) + "[" + canonStr(info, x.Index) + "]"
	case *ast.CallExpr:
		var args []string
		for _, a := range x.Args {
			args = append(args, canonStr(info, a))
		}
		return canonStr(info, x.Fun) + "(" + strings.Join(args, ", ") + ")"
	}
	return types.ExprString(e)
}

// enclosingFuncLit returns the innermost function literal that contains n, or nil when n belongs to the
// declared function itself.
func enclosingFuncLit(p *Program, n ast.Node) *ast.FuncLit {
	for x := p.Parent(n); x != nil; x = p.Parent(x) {
		switch l := x.(type) {
		case *ast.FuncLit:
			return l
		case *ast.FuncDecl:
			return nil
		}
	}
	return nil
}

// closureParamArgs: v is a parameter of a function literal inside decl. When the literal is bound to a
// local variable that has this one definition and is used only as the function of call expressions (it does
// not escape), the arguments the parameter receives at all those calls are returned; a literal invoked on
// the spot yields the one argument. isClosureParam reports whether v is a literal's parameter at all; ok is
// false when the call sites cannot be enumerated (the closure escapes, is re-assigned, is variadic).
func closureParamArgs(p *Program, info *types.Info, decl *ast.FuncDecl, v types.Object) (args []ast.Expr, isClosureParam, ok bool) {
	var lit *ast.FuncLit
	idx := -1
	ast.Inspect(decl.Body, func(n ast.Node) bool {
		l, isLit := n.(*ast.FuncLit)
		if !isLit || lit != nil {
			return lit == nil
		}
		k := 0
		for _, f := range l.Type.Params.List {
			if len(f.Names) == 0 {
				k++
			}
			for _, nm := range f.Names {
				if info.ObjectOf(nm) == v {
					lit, idx = l, k
				}
				k++
			}
		}
		return true
	})
	if lit == nil {
		return nil, false, false
	}
	if sig, _ := info.TypeOf(lit).(*types.Signature); sig == nil || sig.Variadic() {
		return nil, true, false
	}
	var par ast.Node = p.Parent(lit)
	for {
		if pe, isP := par.(*ast.ParenExpr); isP {
			par = p.Parent(pe)
			continue
		}
		break
	}
	switch x := par.(type) {
	case *ast.CallExpr:
		if ast.Unparen(x.Fun) == ast.Expr(lit) && idx < len(x.Args) {
			switch p.Parent(x).(type) {
			case *ast.GoStmt, *ast.DeferStmt:
			}
			return []ast.Expr{x.Args[idx]}, true, true
		}
		return nil, true, false
	case *ast.AssignStmt, *ast.ValueSpec:
		var bound types.Object
		switch s := x.(type) {
		case *ast.AssignStmt:
			for i, r := range s.Rhs {
				if ast.Unparen(r) == ast.Expr(lit) && len(s.Lhs) == len(s.Rhs) {
					if id, isId := ast.Unparen(s.Lhs[i]).(*ast.Ident); isId {
						bound = info.ObjectOf(id)
					}
				}
			}
		case *ast.ValueSpec:
			for i, r := range s.Values {
				if ast.Unparen(r) == ast.Expr(lit) && i < len(s.Names) {
					bound = info.ObjectOf(s.Names[i])
				}
			}
		}
		bv, isVar := bound.(*types.Var)
		if !isVar || bv.IsField() || bv.Pkg() == nil || bv.Parent() == bv.Pkg().Scope() {
			return nil, true, false
		}
		// one definition; every other occurrence is the function of a call
		defs, escapes := 0, false
		ast.Inspect(decl.Body, func(n ast.Node) bool {
			id, isId := n.(*ast.Ident)
			if !isId || info.ObjectOf(id) != bound {
				return true
			}
			switch q := p.Parent(id).(type) {
			case *ast.AssignStmt:
				for _, l := range q.Lhs {
					if l == ast.Expr(id) {
						defs++
						return true
					}
				}
				escapes = true
			case *ast.ValueSpec:
				for _, nm := range q.Names {
					if nm == id {
						defs++
						return true
					}
				}
				escapes = true
			case *ast.CallExpr:
				if q.Fun == ast.Expr(id) && idx < len(q.Args) {
					args = append(args, q.Args[idx])
				} else {
					escapes = true
				}
			default:
				escapes = true
			}
			return true
		})
		if defs != 1 || escapes {
			return nil, true, false
		}
		return args, true, true
	}
	return nil, true, false
}

// constInt64: the integer value of a constant expression.
func constInt64(tv types.TypeAndValue) (int64, bool) {
	if tv.Value == nil {
		return 0, false
	}
	v := constant.ToInt(tv.Value)
	if v.Kind() != constant.Int {
		return 0, false
	}
	return constant.Int64Val(v)
}
