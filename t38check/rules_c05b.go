package main

import (
	"go/ast"
	"go/types"
	"sort"
)

func init() {
	register(&Rule{ID: "R5.equals-covers-definition", Props: []string{"C05", "C14", "C03"}, Floor: 6,
		Text: "Hook.Equals decides whether a re-issued SETHOOK/SETCHAN is a no-op (nothing replaced, nothing logged): every field that cmdSetHook sets on the new hook from the command is compared by Equals on both hooks, except the reviewed ones (fields derived from compared fields, shared run-time resources, and the kind, which is tested before Equals); a definition field left out of the comparison makes a changed definition — a new deadline, other endpoints — look unchanged",
		Run:  ruleEqualsCoversDefinition})
}

// fields of Hook that cmdSetHook sets and Equals need not compare, one reason each
var hookEqualsReviewed = map[string]string{
	"Fence":      "parsed from the command arguments, which Equals compares (Message.Args)",
	"ScanWriter": "built from the same command arguments",
	"channel":    "a hook and a channel of the same name are refused before Equals is consulted",
	"epm":        "the server's endpoint manager (shared run-time resource)",
	"cond":       "a fresh condition variable (run-time resource)",
	"counter":    "the server's sent-messages counter (shared run-time resource)",
	"db":         "the server's queue database (shared run-time resource)",
}

func ruleEqualsCoversDefinition(c *Ctx) {
	set := c.Func("internal/server", "Server", "cmdSetHook")
	eq := c.Func("internal/server", "Hook", "Equals")
	if set == nil || eq == nil {
		c.und("anchors", 0, "cmdSetHook or Hook.Equals not found")
		return
	}
	info := set.Info()
	// the new hook: the local assigned &Hook{…}
	var hookObj types.Object
	defined := map[string]bool{}
	ast.Inspect(set.Decl.Body, func(n ast.Node) bool {
		as, ok := n.(*ast.AssignStmt)
		if !ok || len(as.Lhs) != len(as.Rhs) {
			return true
		}
		for i, r := range as.Rhs {
			ue, ok := ast.Unparen(r).(*ast.UnaryExpr)
			if !ok {
				continue
			}
			cl, ok := ast.Unparen(ue.X).(*ast.CompositeLit)
			if !ok || !isNamedType(info.TypeOf(cl), modPath+"/internal/server", "Hook") || len(cl.Elts) < 3 {
				continue
			}
			if id, ok := as.Lhs[i].(*ast.Ident); ok {
				hookObj = info.ObjectOf(id)
				for _, e := range cl.Elts {
					if kv, ok := e.(*ast.KeyValueExpr); ok {
						if k, ok := kv.Key.(*ast.Ident); ok {
							defined[k.Name] = true
						}
					}
				}
			}
		}
		return true
	})
	if hookObj == nil {
		c.und("new-hook", set.Decl.Pos(), "the construction of the new hook (&Hook{…}) was not found in cmdSetHook")
		return
	}
	ast.Inspect(set.Decl.Body, func(n ast.Node) bool {
		as, ok := n.(*ast.AssignStmt)
		if !ok {
			return true
		}
		for _, l := range as.Lhs {
			if se, ok := ast.Unparen(l).(*ast.SelectorExpr); ok {
				if id, ok := ast.Unparen(se.X).(*ast.Ident); ok && info.ObjectOf(id) == hookObj {
					if f := selField(info, se); f != nil {
						defined[f.Name()] = true
					}
				}
			}
		}
		return true
	})
	// fields Equals reads on the receiver and on the parameter
	einfo := eq.Info()
	var recv, param types.Object
	if eq.Decl.Recv != nil && len(eq.Decl.Recv.List[0].Names) > 0 {
		recv = einfo.ObjectOf(eq.Decl.Recv.List[0].Names[0])
	}
	if ps := eq.Decl.Type.Params.List; len(ps) == 1 && len(ps[0].Names) == 1 {
		param = einfo.ObjectOf(ps[0].Names[0])
	}
	if recv == nil || param == nil {
		c.und("equals-shape", eq.Decl.Pos(), "Hook.Equals is expected to take one hook")
		return
	}
	onRecv, onParam := map[string]bool{}, map[string]bool{}
	ast.Inspect(eq.Decl.Body, func(n ast.Node) bool {
		se, ok := n.(*ast.SelectorExpr)
		if !ok {
			return true
		}
		id, ok := ast.Unparen(se.X).(*ast.Ident)
		if !ok {
			return true
		}
		if f := selField(einfo, se); f != nil {
			switch einfo.ObjectOf(id) {
			case recv:
				onRecv[f.Name()] = true
			case param:
				onParam[f.Name()] = true
			}
		}
		return true
	})
	var names []string
	for f := range defined {
		names = append(names, f)
	}
	sort.Strings(names)
	for _, f := range names {
		key := "Hook." + f
		switch {
		case onRecv[f] && onParam[f]:
			c.ok(key, eq.Decl.Pos(), true, "set by cmdSetHook and compared by Equals on both hooks")
		case hookEqualsReviewed[f] != "":
			c.ok(key, eq.Decl.Pos(), false, "not compared — reviewed: %s", hookEqualsReviewed[f])
		default:
			c.bad(key, eq.Decl.Pos(), "cmdSetHook sets Hook.%s from the command but Hook.Equals does not compare it: a SETHOOK/SETCHAN that changes only this part of the definition is taken for a repetition — the registered hook keeps the old value and nothing is logged", f)
		}
	}
}
