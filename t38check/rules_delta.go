package main

import (
	"fmt"
	"go/ast"
	"go/constant"
	"go/token"
	"go/types"
	"sort"
	"strings"
)

// R19.delta — effect tables of the bookkeeping functions.
//
// Collection.setFill(prev, obj) and Collection.Delete maintain everything that is derived from the primary
// map: four counters and three indexes. The rule evaluates both functions abstractly, once for every
// assignment of truth values to the conditions they test on the two objects (prev == nil, prev.IsSpatial(),
// prev.Expires() != 0, …: the "situation"), helpers inlined. In a situation the control flow is
// determined, and the evaluation yields the effect: per counter a linear form over symbolic measures
// (-1, +NumPoints(obj) - NumPoints(prev), also when the code accumulates a net delta in a local first) and
// per index the ordered list of operations (Delete(prev), Set(obj)). The obligations compare effects, not
// statements:
//
//	insertion-independent  what setFill does for obj does not depend on the situation of prev, and vice versa
//	removal-siblings       setFill's effect for prev equals Delete's effect, situation by situation
//	inverse                the effect for prev is the exact inverse of the effect for obj in the same situation
//	order                  in an index, the operations on prev precede those on obj (their keys may coincide)
//	covered                every secondary field is changed by an insertion in some situation

type bkLin map[string]int64 // term → coefficient; "" is the constant term

func (l bkLin) clone() bkLin {
	o := bkLin{}
	for k, v := range l {
		o[k] = v
	}
	return o
}

func (l bkLin) addScaled(m bkLin, k int64) bkLin {
	o := l.clone()
	for t, v := range m {
		o[t] += k * v
		if o[t] == 0 {
			delete(o, t)
		}
	}
	return o
}

func (l bkLin) String() string {
	var ks []string
	for k := range l {
		ks = append(ks, k)
	}
	sort.Strings(ks)
	var parts []string
	for _, k := range ks {
		t := k
		if t == "" {
			t = "1"
		}
		parts = append(parts, fmt.Sprintf("%+d·%s", l[k], t))
	}
	if len(parts) == 0 {
		return "0"
	}
	return strings.Join(parts, " ")
}

func (l bkLin) rename(from, to string) bkLin {
	o := bkLin{}
	for k, v := range l {
		o[strings.ReplaceAll(k, from, to)] += v
	}
	return o
}

type bkOp struct {
	Field string
	Sign  int // -1 removal (Delete), +1 insertion (Insert, Set)
	Arg   string
	Role  string
	Pos   token.Pos
}

type bkEffect struct {
	counters map[string]bkLin
	ops      []bkOp
}

func (e *bkEffect) opsOf(field, role string) []string {
	var out []string
	for _, o := range e.ops {
		if o.Field == field && (role == "" || o.Role == role) {
			out = append(out, fmt.Sprintf("%+d%s", o.Sign, o.Arg))
		}
	}
	return out
}

// counterPart: the terms of the counter's form that mention the role (constants are attributed by the caller).
type bkInterp struct {
	c        *Ctx
	fields   map[*types.Var]string
	intField map[string]bool
	scen     map[string]bool // atom → value
	atoms    map[string]bool // atoms met (collection mode)
	collect  bool
	problems []string
	eff      *bkEffect
	// prevPresent: per index, whether the previous object is an entry of it in the situation being evaluated
	// (it is iff inserting an object in that situation enters it): decides the second half of Replace
	prevPresent map[string]bool
}

type bkFrame struct {
	info   *types.Info
	recv   types.Object
	roles  map[types.Object]string
	locals map[types.Object]bkLin
}

func (x *bkInterp) problem(pos token.Pos, f string, a ...any) {
	x.problems = append(x.problems, x.c.posStr(pos)+": "+fmt.Sprintf(f, a...))
}

// canon renders an expression with role-bound identifiers replaced by their role.
func (x *bkInterp) canon(fr *bkFrame, e ast.Expr) string {
	switch t := e.(type) {
	case *ast.Ident:
		if r, ok := fr.roles[fr.info.ObjectOf(t)]; ok {
			return r
		}
		return t.Name
	case *ast.ParenExpr:
		return x.canon(fr, t.X)
	case *ast.SelectorExpr:
		return x.canon(fr, t.X) + "." + t.Sel.Name
	case *ast.StarExpr:
		return "*" + x.canon(fr, t.X)
	case *ast.UnaryExpr:
		return t.Op.String() + x.canon(fr, t.X)
	case *ast.BinaryExpr:
		return x.canon(fr, t.X) + " " + t.Op.String() + " " + x.canon(fr, t.Y)
	case *ast.CallExpr:
		var as []string
		for _, a := range t.Args {
			as = append(as, x.canon(fr, a))
		}
		return x.canon(fr, t.Fun) + "(" + strings.Join(as, ", ") + ")"
	}
	return types.ExprString(e)
}

func rolesIn(s string) []string {
	var out []string
	for _, r := range []string{"$prev", "$obj"} {
		if strings.Contains(s, r) {
			out = append(out, r)
		}
	}
	return out
}

func (x *bkInterp) recvField(fr *bkFrame, e ast.Expr) string {
	se, ok := ast.Unparen(e).(*ast.SelectorExpr)
	if !ok {
		return ""
	}
	id, ok := ast.Unparen(se.X).(*ast.Ident)
	if !ok || fr.info.ObjectOf(id) != fr.recv {
		return ""
	}
	if f := selField(fr.info, se); f != nil {
		return x.fields[f]
	}
	return ""
}

// cond evaluates a condition in the situation; in collection mode every atom is recorded and taken as false.
func (x *bkInterp) cond(fr *bkFrame, e ast.Expr) bool {
	e = ast.Unparen(e)
	if c := boolConst(fr.info, e); c == '1' || c == '0' {
		return c == '1'
	}
	switch t := e.(type) {
	case *ast.UnaryExpr:
		if t.Op == token.NOT {
			return !x.cond(fr, t.X)
		}
	case *ast.BinaryExpr:
		switch t.Op {
		case token.LAND:
			if x.collect {
				a, b := x.cond(fr, t.X), x.cond(fr, t.Y)
				return a && b
			}
			return x.cond(fr, t.X) && x.cond(fr, t.Y)
		case token.LOR:
			if x.collect {
				a, b := x.cond(fr, t.X), x.cond(fr, t.Y)
				return a || b
			}
			return x.cond(fr, t.X) || x.cond(fr, t.Y)
		case token.NEQ, token.EQL:
			l, r := x.canon(fr, t.X), x.canon(fr, t.Y)
			if isZeroLit(fr.info, t.X) || isConstExpr(fr.info, t.X) {
				l, r = r, l
			}
			return x.atom(e.Pos(), l+" == "+r) == (t.Op == token.EQL)
		}
	case *ast.Ident:
		// a boolean local that holds a condition
		if v, ok := fr.locals[fr.info.ObjectOf(t)]; ok {
			if n, isConst := v[""]; isConst && len(v) == 1 {
				return n != 0
			}
			if len(v) == 0 {
				return false
			}
		}
	}
	return x.atom(e.Pos(), x.canon(fr, e))
}

func isConstExpr(info *types.Info, e ast.Expr) bool {
	tv, ok := info.Types[e]
	return ok && tv.Value != nil
}

func (x *bkInterp) atom(pos token.Pos, a string) bool {
	if len(rolesIn(a)) == 0 {
		x.problem(pos, "condition %s is not about the object being removed or inserted", a)
		return false
	}
	if x.collect {
		x.atoms[a] = true
		return false
	}
	v, ok := x.scen[a]
	if !ok {
		x.problem(pos, "condition %s met during evaluation was not met during collection", a)
	}
	return v
}

// num evaluates an integer expression to a linear form over symbolic measures of the two objects.
func (x *bkInterp) num(fr *bkFrame, e ast.Expr) (bkLin, bool) {
	e = ast.Unparen(e)
	if tv, ok := fr.info.Types[e]; ok && tv.Value != nil && tv.Value.Kind() == constant.Int {
		if v, exact := constant.Int64Val(tv.Value); exact {
			if v == 0 {
				return bkLin{}, true
			}
			return bkLin{"": v}, true
		}
	}
	switch t := e.(type) {
	case *ast.Ident:
		if v, ok := fr.locals[fr.info.ObjectOf(t)]; ok {
			return v.clone(), true
		}
	case *ast.SelectorExpr:
		if f := x.recvField(fr, t); f != "" && x.intField[f] {
			return bkLin{"@" + f: 1}.addScaled(x.eff.counters[f], 1), true
		}
	case *ast.UnaryExpr:
		if t.Op == token.SUB {
			if v, ok := x.num(fr, t.X); ok {
				return bkLin{}.addScaled(v, -1), true
			}
		}
	case *ast.BinaryExpr:
		if t.Op == token.ADD || t.Op == token.SUB {
			l, ok1 := x.num(fr, t.X)
			r, ok2 := x.num(fr, t.Y)
			if ok1 && ok2 {
				k := int64(1)
				if t.Op == token.SUB {
					k = -1
				}
				return l.addScaled(r, k), true
			}
		}
	case *ast.CallExpr:
		// a conversion
		if tv, ok := fr.info.Types[t.Fun]; ok && tv.IsType() && len(t.Args) == 1 {
			return x.num(fr, t.Args[0])
		}
		// a getter chain on one of the objects: a symbolic measure
		s := x.canon(fr, t)
		if len(rolesIn(s)) == 1 && !strings.Contains(s, "@") {
			return bkLin{s: 1}, true
		}
	}
	return nil, false
}

func isObjPtr(t types.Type) bool {
	p, ok := t.(*types.Pointer)
	return ok && isNamedType(p.Elem(), modPath+"/internal/object", "Object")
}

// exec evaluates statements; it returns true when the function returned.
func (x *bkInterp) exec(fr *bkFrame, stmts []ast.Stmt, depth int) bool {
	for _, st := range stmts {
		switch s := st.(type) {
		case *ast.BlockStmt:
			if x.exec(fr, s.List, depth) {
				return true
			}
		case *ast.ReturnStmt:
			return true
		case *ast.IfStmt:
			if s.Init != nil {
				if x.exec(fr, []ast.Stmt{s.Init}, depth) {
					return true
				}
			}
			if x.collect {
				// both branches, to meet every condition
				x.cond(fr, s.Cond)
				x.exec(fr, s.Body.List, depth)
				if s.Else != nil {
					x.exec(fr, []ast.Stmt{s.Else}, depth)
				}
				continue
			}
			if x.cond(fr, s.Cond) {
				if x.exec(fr, s.Body.List, depth) {
					return true
				}
			} else if s.Else != nil {
				if x.exec(fr, []ast.Stmt{s.Else}, depth) {
					return true
				}
			}
		case *ast.SwitchStmt:
			if s.Tag != nil || s.Init != nil {
				if x.mentionsRecv(fr, s) {
					x.problem(s.Pos(), "a switch with a tag takes part in the bookkeeping: not evaluated")
				}
				continue
			}
			taken := false
			var def *ast.CaseClause
			for _, cc := range s.Body.List {
				cl := cc.(*ast.CaseClause)
				if cl.List == nil {
					def = cl
					continue
				}
				hit := false
				for _, ce := range cl.List {
					if x.cond(fr, ce) {
						hit = true
					}
				}
				if x.collect {
					x.exec(fr, cl.Body, depth)
					continue
				}
				if hit && !taken {
					taken = true
					if x.hasFallthrough(cl) {
						x.problem(cl.Pos(), "fallthrough in a bookkeeping switch: not evaluated")
					}
					if x.exec(fr, cl.Body, depth) {
						return true
					}
				}
			}
			if def != nil && (x.collect || !taken) {
				if x.exec(fr, def.Body, depth) && !x.collect {
					return true
				}
			}
		case *ast.IncDecStmt:
			k := int64(1)
			if s.Tok == token.DEC {
				k = -1
			}
			if f := x.recvField(fr, s.X); f != "" {
				x.eff.counters[f] = x.eff.counters[f].addScaled(bkLin{"": 1}, k)
			} else if id, ok := ast.Unparen(s.X).(*ast.Ident); ok {
				if v, ok := fr.locals[fr.info.ObjectOf(id)]; ok {
					fr.locals[fr.info.ObjectOf(id)] = v.addScaled(bkLin{"": 1}, k)
				}
			}
		case *ast.DeclStmt:
			gd, ok := s.Decl.(*ast.GenDecl)
			if !ok {
				continue
			}
			for _, sp := range gd.Specs {
				vs, ok := sp.(*ast.ValueSpec)
				if !ok {
					continue
				}
				for i, nm := range vs.Names {
					o := fr.info.ObjectOf(nm)
					if i < len(vs.Values) {
						x.assign(fr, o, vs.Values[i], token.DEFINE, nm.Pos())
					} else if isIntType(o.Type()) {
						fr.locals[o] = bkLin{}
					} else if b, ok := o.Type().Underlying().(*types.Basic); ok && b.Kind() == types.Bool {
						fr.locals[o] = bkLin{} // false
					}
				}
			}
		case *ast.AssignStmt:
			if len(s.Lhs) != len(s.Rhs) {
				// prev, _ = c.objs.Delete(id): the removed object
				if len(s.Rhs) == 1 {
					if call, ok := ast.Unparen(s.Rhs[0]).(*ast.CallExpr); ok {
						if se, ok := ast.Unparen(call.Fun).(*ast.SelectorExpr); ok && x.recvField(fr, se.X) == "objs" && (se.Sel.Name == "Delete" || se.Sel.Name == "Set") {
							if id, ok := ast.Unparen(s.Lhs[0]).(*ast.Ident); ok {
								fr.roles[fr.info.ObjectOf(id)] = "$prev"
								continue
							}
						}
					}
				}
				if x.mentionsRecv(fr, s) {
					x.problem(s.Pos(), "assignment form not evaluated")
				}
				continue
			}
			for i := range s.Lhs {
				if f := x.recvField(fr, s.Lhs[i]); f != "" {
					if !x.intField[f] {
						x.problem(s.Pos(), "index field %s is assigned", f)
						continue
					}
					v, ok := x.num(fr, s.Rhs[i])
					if !ok {
						x.problem(s.Pos(), "the value assigned to the counter %s is not a sum of measures of the two objects", f)
						continue
					}
					switch s.Tok {
					case token.ADD_ASSIGN:
						x.eff.counters[f] = x.eff.counters[f].addScaled(v, 1)
					case token.SUB_ASSIGN:
						x.eff.counters[f] = x.eff.counters[f].addScaled(v, -1)
					case token.ASSIGN:
						d := v.addScaled(bkLin{"@" + f: 1}, -1)
						for t := range d {
							if strings.HasPrefix(t, "@") {
								x.problem(s.Pos(), "counter %s is assigned a value that is not its old value plus a delta", f)
							}
						}
						x.eff.counters[f] = d
					default:
						x.problem(s.Pos(), "operator %s on counter %s", s.Tok, f)
					}
					continue
				}
				id, ok := ast.Unparen(s.Lhs[i]).(*ast.Ident)
				if !ok || id.Name == "_" {
					continue
				}
				o := fr.info.ObjectOf(id)
				switch s.Tok {
				case token.ASSIGN, token.DEFINE:
					x.assign(fr, o, s.Rhs[i], s.Tok, s.Pos())
				case token.ADD_ASSIGN, token.SUB_ASSIGN:
					if cur, ok := fr.locals[o]; ok {
						if v, ok := x.num(fr, s.Rhs[i]); ok {
							k := int64(1)
							if s.Tok == token.SUB_ASSIGN {
								k = -1
							}
							fr.locals[o] = cur.addScaled(v, k)
						} else {
							delete(fr.locals, o)
						}
					}
				default:
					delete(fr.locals, o)
				}
			}
		case *ast.ExprStmt:
			call, ok := ast.Unparen(s.X).(*ast.CallExpr)
			if !ok {
				continue
			}
			x.call(fr, call, depth)
		case *ast.ForStmt, *ast.RangeStmt, *ast.GoStmt, *ast.DeferStmt, *ast.SelectStmt, *ast.TypeSwitchStmt, *ast.LabeledStmt, *ast.BranchStmt:
			if x.mentionsRecv(fr, s) {
				x.problem(s.Pos(), "%T takes part in the bookkeeping: not evaluated", s)
			}
		}
	}
	return false
}

func (x *bkInterp) hasFallthrough(cl *ast.CaseClause) bool {
	for _, s := range cl.Body {
		if b, ok := s.(*ast.BranchStmt); ok && b.Tok == token.FALLTHROUGH {
			return true
		}
	}
	return false
}

func (x *bkInterp) mentionsRecv(fr *bkFrame, n ast.Node) bool {
	hit := false
	ast.Inspect(n, func(m ast.Node) bool {
		if id, ok := m.(*ast.Ident); ok && fr.recv != nil && fr.info.ObjectOf(id) == fr.recv {
			hit = true
		}
		return true
	})
	return hit
}

func (x *bkInterp) assign(fr *bkFrame, o types.Object, rhs ast.Expr, tok token.Token, pos token.Pos) {
	if o == nil {
		return
	}
	switch {
	case isObjPtr(o.Type()):
		if id, ok := ast.Unparen(rhs).(*ast.Ident); ok {
			if r, ok := fr.roles[fr.info.ObjectOf(id)]; ok {
				fr.roles[o] = r
				return
			}
		}
		delete(fr.roles, o)
	case isIntType(o.Type()):
		if v, ok := x.num(fr, rhs); ok {
			fr.locals[o] = v
		} else {
			delete(fr.locals, o)
		}
	default:
		if b, ok := o.Type().Underlying().(*types.Basic); ok && b.Kind() == types.Bool {
			// flag := <condition>
			if x.cond(fr, rhs) {
				fr.locals[o] = bkLin{"": 1}
			} else {
				fr.locals[o] = bkLin{}
			}
		}
	}
}

func (x *bkInterp) call(fr *bkFrame, call *ast.CallExpr, depth int) {
	se, isSel := ast.Unparen(call.Fun).(*ast.SelectorExpr)
	if isSel {
		if f := x.recvField(fr, se.X); f != "" {
			if x.intField[f] {
				x.problem(call.Pos(), "method call on counter %s", f)
				return
			}
			if f == "objs" {
				return // the primary map
			}
			// which of the two objects the operation is about: the object arguments, or arguments derived from one
			var objRoles []string
			for _, a := range call.Args {
				if id, ok := ast.Unparen(a).(*ast.Ident); ok {
					if r, ok := fr.roles[fr.info.ObjectOf(id)]; ok {
						objRoles = append(objRoles, r)
					}
				}
			}
			var as []string
			for _, a := range call.Args {
				as = append(as, x.canon(fr, a))
			}
			arg := strings.Join(as, ", ")
			switch se.Sel.Name {
			case "Replace":
				// Replace(old…, new…): removes the old entry and, only if it was there, enters the new one
				if len(objRoles) != 2 || objRoles[0] == objRoles[1] {
					x.problem(call.Pos(), "Replace on index %s does not name one old and one new object", f)
					return
				}
				if x.collect || objRoles[0] != "$prev" || x.prevPresent == nil || x.prevPresent[f] {
					x.eff.ops = append(x.eff.ops, bkOp{Field: f, Sign: -1, Arg: objRoles[0], Role: objRoles[0], Pos: call.Pos()})
				}
				if x.collect || objRoles[0] != "$prev" || x.prevPresent == nil || x.prevPresent[f] {
					x.eff.ops = append(x.eff.ops, bkOp{Field: f, Sign: +1, Arg: objRoles[1], Role: objRoles[1], Pos: call.Pos()})
				}
				return
			}
			sign := 0
			switch se.Sel.Name {
			case "Delete":
				sign = -1
			case "Insert", "Set":
				sign = +1
			default:
				x.problem(call.Pos(), "operation %s on index %s is neither an insertion nor a removal", se.Sel.Name, f)
				return
			}
			rs := rolesIn(arg)
			if len(rs) != 1 {
				x.problem(call.Pos(), "index operation %s.%s(%s) is not about exactly one of the two objects", f, se.Sel.Name, arg)
				return
			}
			// removing an entry that is not there is a no-op of the containers (the previous object is an entry
			// of the index iff inserting an object in its situation enters it)
			if sign < 0 && rs[0] == "$prev" && !x.collect && x.prevPresent != nil && !x.prevPresent[f] {
				return
			}
			// the entry is identified by the object; how its key is computed (rtreeItem) is R2.quantiser-agreement's business
			x.eff.ops = append(x.eff.ops, bkOp{Field: f, Sign: sign, Arg: rs[0], Role: rs[0], Pos: call.Pos()})
			return
		}
	}
	// a helper that takes part in the bookkeeping: evaluated in place
	f := callee(fr.info, call)
	fi := x.c.FuncOf(f)
	passesRecv := false
	for _, a := range call.Args {
		if id, ok := ast.Unparen(a).(*ast.Ident); ok && fr.recv != nil && fr.info.ObjectOf(id) == fr.recv {
			passesRecv = true
		}
	}
	onRecv := false
	if isSel {
		if id, ok := ast.Unparen(se.X).(*ast.Ident); ok && fr.recv != nil && fr.info.ObjectOf(id) == fr.recv {
			onRecv = true
		}
	}
	if !onRecv && !passesRecv {
		return
	}
	if fi == nil || depth <= 0 {
		x.problem(call.Pos(), "call %s receives the collection but its body is not available (or too deep)", x.canon(fr, call.Fun))
		return
	}
	sub := &bkFrame{info: fi.Info(), roles: map[types.Object]string{}, locals: map[types.Object]bkLin{}}
	if onRecv && fi.Decl.Recv != nil && len(fi.Decl.Recv.List[0].Names) > 0 {
		sub.recv = fi.Info().ObjectOf(fi.Decl.Recv.List[0].Names[0])
	}
	var params []types.Object
	for _, p := range fi.Decl.Type.Params.List {
		for _, nm := range p.Names {
			params = append(params, fi.Info().ObjectOf(nm))
		}
	}
	if len(params) != len(call.Args) {
		x.problem(call.Pos(), "helper %s: parameters cannot be bound", f.Name())
		return
	}
	for i, a := range call.Args {
		po := params[i]
		switch {
		case isObjPtr(po.Type()):
			if id, ok := ast.Unparen(a).(*ast.Ident); ok {
				if r, ok := fr.roles[fr.info.ObjectOf(id)]; ok {
					sub.roles[po] = r
				}
			}
		case isIntType(po.Type()):
			if v, ok := x.num(fr, a); ok {
				sub.locals[po] = v
			}
		default:
			if id, ok := ast.Unparen(a).(*ast.Ident); ok && fr.recv != nil && fr.info.ObjectOf(id) == fr.recv {
				sub.recv = po
			}
		}
	}
	x.exec(sub, fi.Decl.Body.List, depth-1)
}

// bkTarget: a bookkeeping function with the roles of its object variables at entry.
type bkTarget struct {
	fn    *FuncInfo
	roles map[types.Object]string
}

func (x *bkInterp) run(t *bkTarget, scen map[string]bool, collect bool) *bkEffect {
	x.scen, x.collect = scen, collect
	x.eff = &bkEffect{counters: map[string]bkLin{}}
	fr := &bkFrame{info: t.fn.Info(), roles: map[types.Object]string{}, locals: map[types.Object]bkLin{}}
	for k, v := range t.roles {
		fr.roles[k] = v
	}
	if t.fn.Decl.Recv != nil && len(t.fn.Decl.Recv.List[0].Names) > 0 {
		fr.recv = t.fn.Info().ObjectOf(t.fn.Decl.Recv.List[0].Names[0])
	}
	x.exec(fr, t.fn.Decl.Body.List, 3)
	return x.eff
}

func ruleDelta(c *Ctx) {
	// the two entry points of the bookkeeping, by role: Collection.Set (the replace path: the previous object is what
	// the primary map hands back) and Collection.Delete; the helpers they call (setFill, fill/unfill, …) are evaluated
	// in place
	setFill := c.Func("internal/collection", "Collection", "Set")
	del := c.Func("internal/collection", "Collection", "Delete")
	if setFill == nil || del == nil {
		c.und("anchors", 0, "Collection.Set or Collection.Delete not found")
		return
	}
	colT := c.Pkgs["internal/collection"].Types.Scope().Lookup("Collection")
	st := colT.Type().Underlying().(*types.Struct)
	x := &bkInterp{c: c, fields: map[*types.Var]string{}, intField: map[string]bool{}, atoms: map[string]bool{}}
	var secondary []string
	for i := 0; i < st.NumFields(); i++ {
		f := st.Field(i)
		x.fields[f] = f.Name()
		if isIntType(f.Type()) {
			x.intField[f.Name()] = true
		}
		if f.Name() != "objs" {
			secondary = append(secondary, f.Name())
		}
	}
	// setFill(prev, obj): the two object parameters, in this order
	var objParams []types.Object
	for _, p := range setFill.Decl.Type.Params.List {
		for _, n := range p.Names {
			if o := setFill.Info().ObjectOf(n); isObjPtr(o.Type()) {
				objParams = append(objParams, o)
			}
		}
	}
	if len(objParams) != 1 {
		c.und("setFill-shape", setFill.Decl.Pos(), "Collection.Set is expected to take the new object")
		return
	}
	tSet := &bkTarget{fn: setFill, roles: map[types.Object]string{objParams[0]: "$obj"}}
	tDel := &bkTarget{fn: del, roles: map[types.Object]string{}}
	// the conditions both functions test, closed under exchanging the two objects
	x.run(tSet, nil, true)
	x.run(tDel, nil, true)
	if len(x.problems) > 0 {
		c.und("model", setFill.Decl.Pos(), "the bookkeeping code is outside what the effect evaluation covers: %s", strings.Join(x.problems, "; "))
		return
	}
	for a := range x.atoms {
		switch rs := rolesIn(a); {
		case len(rs) == 2:
			// what the bookkeeping does for the new object then depends on the previous one (and vice versa): the
			// independence obligation is violated by construction; the situations cannot be enumerated further
			c.bad("insertion-independent/relational-condition", setFill.Decl.Pos(), "the bookkeeping tests %s, a condition that relates the previous and the new object: what is done for the new object (which index entries are written) depends on the previous one — an index entry that is kept because the two look alike still points at the previous object, with its fields and deadline, while the primary map holds the new one", a)
			return
		case rs[0] == "$prev":
			x.atoms[strings.ReplaceAll(a, "$prev", "$obj")] = true
		default:
			x.atoms[strings.ReplaceAll(a, "$obj", "$prev")] = true
		}
	}
	delete(x.atoms, "$obj == nil") // the new object exists
	var prevAtoms []string
	for a := range x.atoms {
		if strings.Contains(a, "$prev") && a != "$prev == nil" {
			prevAtoms = append(prevAtoms, a)
		}
	}
	sort.Strings(prevAtoms)
	if len(prevAtoms) > 6 {
		c.und("model", setFill.Decl.Pos(), "%d conditions per object: too many situations", len(prevAtoms))
		return
	}
	c.stat("conditions_per_object", len(prevAtoms))
	n := len(prevAtoms)
	sit := func(mask int, role string, into map[string]bool) {
		for i, a := range prevAtoms {
			into[strings.ReplaceAll(a, "$prev", role)] = mask&(1<<i) != 0
		}
	}
	describe := func(mask int, role string) string {
		var ps []string
		for i, a := range prevAtoms {
			s := strings.ReplaceAll(a, "$prev", role)
			if mask&(1<<i) == 0 {
				s = "!(" + s + ")"
			}
			ps = append(ps, s)
		}
		return strings.Join(ps, " ∧ ")
	}
	evalSet := func(prevNil bool, pm, om int) *bkEffect {
		s := map[string]bool{"$prev == nil": prevNil}
		sit(pm, "$prev", s)
		sit(om, "$obj", s)
		return x.run(tSet, s, false)
	}
	evalDel := func(pm int) *bkEffect {
		s := map[string]bool{"$prev == nil": false}
		sit(pm, "$prev", s)
		return x.run(tDel, s, false)
	}
	// the part of an effect that concerns one object: counter terms that mention it, constants attributed by difference
	type verdict struct {
		bad bool
		how string
		pos token.Pos
	}
	res := map[string]*verdict{} // "<obligation>/<field>"
	fail := func(ob, field string, pos token.Pos, f string, a ...any) {
		k := ob + "/" + field
		if res[k] == nil || !res[k].bad {
			res[k] = &verdict{true, fmt.Sprintf(f, a...), pos}
		}
	}
	pass := func(ob, field string) {
		k := ob + "/" + field
		if res[k] == nil {
			res[k] = &verdict{}
		}
	}
	eqLin := func(a, b bkLin) bool {
		d := a.addScaled(b, -1)
		return len(d) == 0
	}
	eqStrs := func(a, b []string) bool { return strings.Join(a, ";") == strings.Join(b, ";") }
	covered := map[string]bool{}
	situations := 0
	for om := 0; om < 1<<n; om++ {
		x.prevPresent = nil
		ins := evalSet(true, 0, om) // insertion alone
		for _, f := range secondary {
			if len(ins.counters[f]) > 0 || len(ins.opsOf(f, "")) > 0 {
				covered[f] = true
			}
			if len(ins.opsOf(f, "$prev")) > 0 {
				fail("insertion-independent", f, setFill.Decl.Pos(), "with no previous object setFill still operates on it in %s", f)
			}
		}
		for pm := 0; pm < 1<<n; pm++ {
			situations++
			x.prevPresent = nil
			insP := evalSet(true, 0, pm) // insertion of an object in the previous object's situation
			x.prevPresent = map[string]bool{}
			for _, f := range secondary {
				for _, o := range insP.ops {
					if o.Field == f && o.Sign > 0 {
						x.prevPresent[f] = true
					}
				}
			}
			both := evalSet(false, pm, om)
			dl := evalDel(pm)
			for _, f := range secondary {
				where := fmt.Sprintf("previous object: %s; new object: %s", describe(pm, "$prev"), describe(om, "$obj"))
				if x.intField[f] {
					rem := both.counters[f].addScaled(ins.counters[f], -1) // what setFill does for prev
					for t := range rem {
						if strings.Contains(t, "$obj") {
							fail("insertion-independent", f, setFill.Decl.Pos(), "the change of %s for the previous object depends on the new one (%s) [%s]", f, rem, where)
						}
					}
					pass("insertion-independent", f)
					if !eqLin(rem, dl.counters[f]) {
						fail("removal-siblings", f, del.Decl.Pos(), "replacing an object changes %s by %s for the previous object, deleting it changes %s by %s [%s]", f, rem, f, dl.counters[f], describe(pm, "$prev"))
					}
					pass("removal-siblings", f)
					inv := bkLin{}.addScaled(insP.counters[f].rename("$obj", "$prev"), -1)
					if !eqLin(rem, inv) {
						fail("inverse", f, setFill.Decl.Pos(), "removing an object changes %s by %s but inserting the same object changed it by %s: the counter drifts [%s]", f, rem, insP.counters[f].rename("$obj", "$prev"), describe(pm, "$prev"))
					}
					pass("inverse", f)
					continue
				}
				// an index
				if !eqStrs(both.opsOf(f, "$obj"), ins.opsOf(f, "$obj")) {
					fail("insertion-independent", f, setFill.Decl.Pos(), "the operations on %s for the new object depend on the previous one: %v vs %v [%s]", f, both.opsOf(f, "$obj"), ins.opsOf(f, "$obj"), where)
				}
				pass("insertion-independent", f)
				rem := both.opsOf(f, "$prev")
				if !eqStrs(rem, dl.opsOf(f, "$prev")) {
					fail("removal-siblings", f, del.Decl.Pos(), "replacing an object performs %v on %s for the previous object, deleting it performs %v [%s]", rem, f, dl.opsOf(f, "$prev"), describe(pm, "$prev"))
				}
				pass("removal-siblings", f)
				var inv []string
				for _, o := range insP.ops {
					if o.Field == f {
						inv = append(inv, fmt.Sprintf("%+d%s", -o.Sign, strings.ReplaceAll(o.Arg, "$obj", "$prev")))
					}
				}
				sort.Strings(inv)
				rs := append([]string(nil), rem...)
				sort.Strings(rs)
				if !eqStrs(rs, inv) {
					fail("inverse", f, setFill.Decl.Pos(), "removing an object performs %v on %s but inserting the same object performed %v: the index keeps or loses an entry [%s]", rem, f, insP.opsOf(f, "$obj"), describe(pm, "$prev"))
				}
				pass("inverse", f)
				// order: every operation on prev precedes every operation on obj
				seenObj := false
				for _, o := range both.ops {
					if o.Field != f {
						continue
					}
					if o.Role == "$obj" {
						seenObj = true
					} else if seenObj {
						fail("order", f, o.Pos, "in %s the previous object is removed after the new one was entered: when both have the same key the new entry is the one removed [%s]", f, where)
					}
				}
				pass("order", f)
			}
			if len(x.problems) > 0 {
				c.und("model", setFill.Decl.Pos(), "%s", strings.Join(x.problems, "; "))
				return
			}
		}
	}
	c.stat("situations", situations)
	var keys []string
	for k := range res {
		keys = append(keys, k)
	}
	sort.Strings(keys)
	for _, k := range keys {
		v := res[k]
		if v.bad {
			c.bad(k, v.pos, "%s", v.how)
		} else {
			c.ok(k, setFill.Decl.Pos(), true, "holds in all %d situations of the two objects (%d conditions each)", situations, n)
		}
	}
	for _, f := range secondary {
		c.check(covered[f], "covered/"+f, setFill.Decl.Pos(), "changed by the insertion in some situation", fmt.Sprintf("Collection.%s is never changed by setFill's insertion: it is not maintained", f))
	}
}
