package main

import (
	"fmt"
	"go/ast"
	"go/constant"
	"go/token"
	"go/types"
	"sort"
	"strings"

	"golang.org/x/tools/go/cfg"
	"golang.org/x/tools/go/packages"
)

// FlowGraph wraps a go/cfg graph of one function body with dominators and
// location-level queries. FuncLits nested in the body are NOT part of the
// graph (they are separate units); searches do not descend into them unless
// asked.
type FlowGraph struct {
	G      *cfg.CFG
	Info   *types.Info
	Body   *ast.BlockStmt
	idom   []int // immediate dominator by block index (-1 for entry/unreachable)
	preds  [][]int
	rpoNum []int
	links  map[types.Object]boolLink // flag := x == nil / x != nil (both assigned once)
	// scenario oracle of the running query (PathQuery.Atom): the value of an atomic condition, '1', '0' or '?'
	atom func(e ast.Expr) byte
	// the facts the running search carries at the point where atom is being asked
	curFacts map[identFact]bool
	// pseudo-variables for the fields of local struct values (d.updated): see factObj
	fieldVars map[string]*types.Var
	escaping  map[types.Object]bool // see escapes
	bdefs     map[types.Object]ast.Expr
}

// factObj: the variable a fact can be about: an identifier, or a field of a local struct value (d.updated
// where d is a local variable of struct type, not a pointer): the field of that one value is a variable of
// its own, written only by assignments to d.f or to d as a whole.
func (fg *FlowGraph) factObj(e ast.Expr) types.Object {
	switch x := ast.Unparen(e).(type) {
	case *ast.Ident:
		return fg.Info.ObjectOf(x)
	case *ast.SelectorExpr:
		id, ok := ast.Unparen(x.X).(*ast.Ident)
		if !ok {
			return nil
		}
		v, ok := fg.Info.ObjectOf(id).(*types.Var)
		if !ok || v.IsField() || v.Pkg() == nil || v.Parent() == v.Pkg().Scope() {
			return nil
		}
		if _, isStruct := v.Type().Underlying().(*types.Struct); !isStruct {
			return nil
		}
		sel := fg.Info.Selections[x]
		if sel == nil || sel.Kind() != types.FieldVal || len(sel.Index()) != 1 {
			return nil
		}
		key := fmt.Sprintf("%p.%s", v, x.Sel.Name)
		if fg.fieldVars == nil {
			fg.fieldVars = map[string]*types.Var{}
		}
		pv := fg.fieldVars[key]
		if pv == nil {
			pv = types.NewVar(x.Pos(), v.Pkg(), v.Name()+"."+x.Sel.Name, sel.Obj().Type())
			fg.fieldVars[key] = pv
		}
		return pv
	}
	return nil
}

// fieldVarsOf: the pseudo-variables of the fields of local struct value v that facts may mention.
func (fg *FlowGraph) fieldVarsOf(v types.Object) []types.Object {
	var out []types.Object
	prefix := fmt.Sprintf("%p.", v)
	for k, pv := range fg.fieldVars {
		if strings.HasPrefix(k, prefix) {
			out = append(out, pv)
		}
	}
	return out
}

type boolLink struct {
	x     types.Object
	eqNil bool // the flag is true iff x == nil
}

// boolLinks: boolean locals defined once as `x == nil` or `x != nil` of a local x that is assigned once.
func (fg *FlowGraph) boolLinks() map[types.Object]boolLink {
	if fg.links != nil {
		return fg.links
	}
	fg.links = map[types.Object]boolLink{}
	ast.Inspect(fg.Body, func(n ast.Node) bool {
		as, ok := n.(*ast.AssignStmt)
		if !ok || len(as.Lhs) != len(as.Rhs) {
			return true
		}
		for i, l := range as.Lhs {
			id, ok := ast.Unparen(l).(*ast.Ident)
			if !ok {
				continue
			}
			be, ok := ast.Unparen(as.Rhs[i]).(*ast.BinaryExpr)
			if !ok || (be.Op != token.EQL && be.Op != token.NEQ) {
				continue
			}
			for _, side := range [][2]ast.Expr{{be.X, be.Y}, {be.Y, be.X}} {
				xid, ok := ast.Unparen(side[0]).(*ast.Ident)
				if !ok {
					continue
				}
				if tv, ok := fg.Info.Types[side[1]]; !ok || !tv.IsNil() {
					continue
				}
				b, x := fg.Info.ObjectOf(id), fg.Info.ObjectOf(xid)
				if b != nil && x != nil && fg.assignCount(b) == 1 && fg.assignCount(x) == 1 {
					fg.links[b] = boolLink{x, be.Op == token.EQL}
				}
			}
		}
		return true
	})
	return fg.links
}

// closeFacts adds what follows from the flag links: flag known ⇒ nil-ness of x known, and the reverse.
func (fg *FlowGraph) closeFacts(m map[identFact]bool) map[identFact]bool {
	links := fg.boolLinks()
	defs := fg.boolDefs()
	if (len(links) == 0 && len(defs) == 0) || len(m) == 0 {
		return m
	}
	var out map[identFact]bool
	set := func(k identFact, v bool) {
		if _, ok := m[k]; ok {
			return
		}
		if out == nil {
			out = map[identFact]bool{}
			for kk, vv := range m {
				out[kk] = vv
			}
		}
		if _, ok := out[k]; ok {
			return
		}
		out[k] = v
	}
	// flag := A || B (assigned once, operands assigned at most once and not changed by closures): a known
	// flag decides the parts that follow from it (false: both fail; for A && B, true: both hold)
	for b, d := range defs {
		v, ok := m[identFact{b, false}]
		if !ok {
			continue
		}
		var parts []Fact
		var rec func(e ast.Expr, truth bool)
		rec = func(e ast.Expr, truth bool) {
			e = ast.Unparen(e)
			if u, ok := e.(*ast.UnaryExpr); ok && u.Op == token.NOT {
				rec(u.X, !truth)
				return
			}
			if be, ok := e.(*ast.BinaryExpr); ok && (be.Op == token.LAND && truth || be.Op == token.LOR && !truth) {
				rec(be.X, truth)
				rec(be.Y, truth)
				return
			}
			parts = append(parts, Fact{E: e, Neg: !truth})
		}
		rec(d, v)
		for k, pv := range fg.identFacts(parts) {
			if fg.assignCount(k.obj) <= 1 && !fg.escapes(k.obj) {
				set(k, pv)
			}
		}
	}
	for b, l := range links {
		if v, ok := m[identFact{b, false}]; ok {
			set(identFact{l.x, true}, v == l.eqNil)
		}
		if isNil, ok := m[identFact{l.x, true}]; ok {
			set(identFact{b, false}, isNil == l.eqNil)
		}
	}
	if out == nil {
		return m
	}
	return out
}

// Loc is a position in the graph: node Idx of block Block. Node is the
// matched (possibly inner) AST node.
type Loc struct {
	Block *cfg.Block
	Idx   int
	Node  ast.Node
}

func (l Loc) Valid() bool { return l.Block != nil }

// noReturn: calls that never return, resolved through types.
func noReturnCall(info *types.Info, call *ast.CallExpr) bool {
	if id, ok := ast.Unparen(call.Fun).(*ast.Ident); ok {
		if b, ok := info.Uses[id].(*types.Builtin); ok && b.Name() == "panic" {
			return true
		}
	}
	fn := callee(info, call)
	if fn == nil || fn.Pkg() == nil {
		return false
	}
	switch fn.Pkg().Path() {
	case "os":
		return fn.Name() == "Exit"
	case modPath + "/internal/log", "log":
		return fn.Name() == "Fatal" || fn.Name() == "Fatalf" || fn.Name() == "Fatalln" || fn.Name() == "Panic" || fn.Name() == "Panicf"
	}
	return false
}

func newFlowGraph(info *types.Info, body *ast.BlockStmt) *FlowGraph {
	g := cfg.New(body, func(call *ast.CallExpr) bool { return !noReturnCall(info, call) })
	fg := &FlowGraph{G: g, Info: info, Body: body}
	fg.computeDom()
	return fg
}

func (fg *FlowGraph) computeDom() {
	n := len(fg.G.Blocks)
	fg.preds = make([][]int, n)
	// reverse postorder from entry
	order := make([]int, 0, n)
	seen := make([]bool, n)
	var dfs func(i int)
	dfs = func(i int) {
		seen[i] = true
		for _, s := range fg.G.Blocks[i].Succs {
			if !seen[s.Index] {
				dfs(int(s.Index))
			}
		}
		order = append(order, i)
	}
	if n > 0 {
		dfs(0)
	}
	for i, j := 0, len(order)-1; i < j; i, j = i+1, j-1 {
		order[i], order[j] = order[j], order[i]
	}
	fg.rpoNum = make([]int, n)
	for i := range fg.rpoNum {
		fg.rpoNum[i] = -1
	}
	for i, b := range order {
		fg.rpoNum[b] = i
	}
	// predecessors: only reachable blocks count (go/cfg links the dead
	// block after a return to the join block)
	for _, b := range fg.G.Blocks {
		if fg.rpoNum[b.Index] < 0 {
			continue
		}
		for _, s := range b.Succs {
			fg.preds[s.Index] = append(fg.preds[s.Index], int(b.Index))
		}
	}
	fg.idom = make([]int, n)
	for i := range fg.idom {
		fg.idom[i] = -1
	}
	if n == 0 {
		return
	}
	fg.idom[0] = 0
	changed := true
	for changed {
		changed = false
		for _, b := range order[1:] {
			newIdom := -1
			for _, p := range fg.preds[b] {
				if fg.idom[p] == -1 {
					continue
				}
				if newIdom == -1 {
					newIdom = p
				} else {
					newIdom = fg.intersect(p, newIdom)
				}
			}
			if newIdom != fg.idom[b] {
				fg.idom[b] = newIdom
				changed = true
			}
		}
	}
}

func (fg *FlowGraph) intersect(a, b int) int {
	for a != b {
		for fg.rpoNum[a] > fg.rpoNum[b] {
			a = fg.idom[a]
		}
		for fg.rpoNum[b] > fg.rpoNum[a] {
			b = fg.idom[b]
		}
	}
	return a
}

// Reachable reports whether the block is reachable from entry.
func (fg *FlowGraph) Reachable(b *cfg.Block) bool { return fg.rpoNum[b.Index] >= 0 }

// BlockDominates: a dominates b (reflexive).
func (fg *FlowGraph) BlockDominates(a, b *cfg.Block) bool {
	if !fg.Reachable(a) || !fg.Reachable(b) {
		return false
	}
	x := int(b.Index)
	for {
		if x == int(a.Index) {
			return true
		}
		if x == 0 {
			return false
		}
		x = fg.idom[x]
	}
}

// Dominates: location a is executed before b on every path from entry to b.
func (fg *FlowGraph) Dominates(a, b Loc) bool {
	if a.Block == b.Block {
		return a.Idx <= b.Idx && fg.Reachable(a.Block)
	}
	return fg.BlockDominates(a.Block, b.Block)
}

// inspectNoLit walks n without descending into function literals.
func inspectNoLit(n ast.Node, f func(ast.Node) bool) {
	ast.Inspect(n, func(x ast.Node) bool {
		if x == nil {
			return false
		}
		if _, ok := x.(*ast.FuncLit); ok && x != n {
			return false
		}
		return f(x)
	})
}

// Find returns the locations of all nodes (searched inside every block node,
// not inside nested FuncLits) for which pred holds, in reachable blocks.
func (fg *FlowGraph) Find(pred func(ast.Node) bool) []Loc {
	var out []Loc
	for _, b := range fg.G.Blocks {
		if !fg.Reachable(b) {
			continue
		}
		for i, n := range b.Nodes {
			inspectNoLit(n, func(x ast.Node) bool {
				if pred(x) {
					out = append(out, Loc{b, i, x})
				}
				return true
			})
		}
	}
	return out
}

// FindCalls returns call sites whose resolved callee satisfies pred.
func (fg *FlowGraph) FindCalls(pred func(fn *types.Func, call *ast.CallExpr) bool) []Loc {
	return fg.Find(func(n ast.Node) bool {
		call, ok := n.(*ast.CallExpr)
		if !ok {
			return false
		}
		return pred(callee(fg.Info, call), call)
	})
}

// LocOf returns the location of the block node containing the AST node n.
func (fg *FlowGraph) LocOf(n ast.Node) Loc {
	for _, b := range fg.G.Blocks {
		for i, bn := range b.Nodes {
			if bn.Pos() <= n.Pos() && n.End() <= bn.End() {
				found := false
				inspectNoLit(bn, func(x ast.Node) bool {
					if x == n {
						found = true
					}
					return !found
				})
				if found {
					return Loc{b, i, n}
				}
			}
		}
	}
	return Loc{}
}

// Returns lists the return statements (including the implicit one).
func (fg *FlowGraph) Returns() []Loc {
	var out []Loc
	for _, b := range fg.G.Blocks {
		if !fg.Reachable(b) {
			continue
		}
		for i, n := range b.Nodes {
			if r, ok := n.(*ast.ReturnStmt); ok {
				out = append(out, Loc{b, i, r})
			}
		}
	}
	return out
}

// ExitBlocks: reachable blocks without successors (returns and no-return calls).
func (fg *FlowGraph) isReturnBlock(b *cfg.Block) bool {
	if len(b.Succs) != 0 || len(b.Nodes) == 0 {
		return false
	}
	_, ok := b.Nodes[len(b.Nodes)-1].(*ast.ReturnStmt)
	return ok
}

// PathQuery describes a search: starting just after From (or at entry when
// From is invalid), can execution reach a location satisfying Target without
// first passing a location satisfying Avoid? EdgeOK, when set, can prune an
// edge (from block, successor index). With Correlate, the search carries
// boolean facts about local identifiers (x, !x, x == nil, x != nil) learned
// from the edges taken (and from the edges dominating From) and prunes edges
// that contradict them; a fact dies when its identifier is assigned.
type PathQuery struct {
	From      Loc
	Target    func(l Loc) bool
	Avoid     func(l Loc) bool
	EdgeOK    func(from *cfg.Block, succIdx int) bool
	Correlate bool
	// Gen (with Correlate) lets a rule add facts it can derive at a block node (p := fresh.Get(id) ⇒ p == nil).
	Gen func(n ast.Node, facts map[identFact]bool) map[identFact]bool
	// Atom (with Correlate) makes the search a scenario evaluation: the rule fixes the value of some atomic
	// conditions (a field, a call compared with a constant, `tag == case` of a switch) and every branch
	// condition is evaluated under them in Kleene logic; only edges that are feasible in the scenario are
	// followed. An atom the rule leaves '?' keeps both edges.
	Atom func(e ast.Expr) byte
	// Facts: identifier facts that hold at the start of the search (for a search from the entry).
	Facts map[identFact]bool
	// Visit is called at every node the search passes, with the facts known there.
	Visit func(l Loc, facts map[identFact]bool)
}

type identFact struct {
	obj   types.Object
	isNil bool // fact is about obj being the zero value (obj == nil, obj == "") rather than obj itself
}

// isZeroLit: the nil literal or the constant "".
func isZeroLit(info *types.Info, e ast.Expr) bool {
	tv, ok := info.Types[e]
	if !ok {
		return false
	}
	if tv.IsNil() {
		return true
	}
	return tv.Value != nil && tv.Value.Kind() == constant.String && constant.StringVal(tv.Value) == ""
}

// identFacts extracts facts about identifiers from edge facts.
func (fg *FlowGraph) identFacts(fs []Fact) map[identFact]bool {
	out := map[identFact]bool{}
	for _, f := range fs {
		if f.Tag != nil {
			continue
		}
		e := ast.Unparen(f.E)
		switch x := e.(type) {
		case *ast.Ident, *ast.SelectorExpr:
			if o := fg.factObj(x.(ast.Expr)); o != nil {
				if _, seen := out[identFact{o, false}]; !seen { // facts come nearest-first: the nearest test wins
					out[identFact{o, false}] = !f.Neg
				}
			}
		case *ast.BinaryExpr:
			if x.Op != token.EQL && x.Op != token.NEQ {
				continue
			}
			for _, side := range [][2]ast.Expr{{x.X, x.Y}, {x.Y, x.X}} {
				if tv, ok := fg.Info.Types[side[1]]; ok && tv.IsNil() {
					if o := fg.factObj(side[0]); o != nil {
						isNil := (x.Op == token.EQL) != f.Neg
						if _, seen := out[identFact{o, true}]; !seen {
							out[identFact{o, true}] = isNil
						}
					}
				}
			}
		}
	}
	return out
}

func factsKey(m map[identFact]bool) string {
	if len(m) == 0 {
		return ""
	}
	var ks []string
	for k, v := range m {
		ks = append(ks, fmt.Sprintf("%p/%v=%v", k.obj, k.isNil, v))
	}
	sort.Strings(ks)
	return strings.Join(ks, ";")
}

// killed: identifiers assigned (or address-taken) by node n.
// eval3 evaluates a boolean expression under ident facts: '1', '0' or '?'.
func (fg *FlowGraph) eval3(e ast.Expr, facts map[identFact]bool) byte {
	e = ast.Unparen(e)
	if c := boolConst(fg.Info, e); c == '1' || c == '0' {
		return c
	}
	if fg.atom != nil {
		if v := fg.atom(e); v == '1' || v == '0' {
			return v
		}
	}
	switch x := e.(type) {
	case *ast.Ident, *ast.SelectorExpr:
		if o := fg.factObj(x.(ast.Expr)); o != nil {
			if v, ok := facts[identFact{o, false}]; ok {
				if v {
					return '1'
				}
				return '0'
			}
		}
	case *ast.UnaryExpr:
		if x.Op == token.NOT {
			switch fg.eval3(x.X, facts) {
			case '1':
				return '0'
			case '0':
				return '1'
			}
		}
	case *ast.BinaryExpr:
		switch x.Op {
		case token.LAND:
			l, r := fg.eval3(x.X, facts), fg.eval3(x.Y, facts)
			if l == '0' || r == '0' {
				return '0'
			}
			if l == '1' && r == '1' {
				return '1'
			}
		case token.LOR:
			l, r := fg.eval3(x.X, facts), fg.eval3(x.Y, facts)
			if l == '1' || r == '1' {
				return '1'
			}
			if l == '0' && r == '0' {
				return '0'
			}
		case token.EQL, token.NEQ:
			for _, side := range [][2]ast.Expr{{x.X, x.Y}, {x.Y, x.X}} {
				if isZeroLit(fg.Info, side[1]) {
					if o := fg.factObj(side[0]); o != nil {
						if isNil, ok := facts[identFact{o, true}]; ok {
							if isNil == (x.Op == token.EQL) {
								return '1'
							}
							return '0'
						}
					}
				}
			}
		}
	}
	return '?'
}

// generated adds the facts established by assignments of boolean constants or nil to identifiers
// (flag = true; p = nil) in block node n.
func (fg *FlowGraph) generated(n ast.Node, facts map[identFact]bool) map[identFact]bool {
	var out map[identFact]bool
	set := func(k identFact, v bool) {
		if out == nil {
			out = map[identFact]bool{}
			for kk, vv := range facts {
				out[kk] = vv
			}
		}
		out[k] = v
	}
	// var ok bool / var p *T / var d commandDetails: the zero value is known
	var specs []ast.Spec
	switch d := n.(type) {
	case *ast.DeclStmt: // go/cfg records the specs; kept for callers that pass statements
		if gd, ok := d.Decl.(*ast.GenDecl); ok && gd.Tok == token.VAR {
			specs = gd.Specs
		}
	case *ast.ValueSpec:
		specs = []ast.Spec{d}
	}
	if specs != nil {
		for _, sp := range specs {
			vs, ok := sp.(*ast.ValueSpec)
			if !ok || len(vs.Values) != 0 {
				continue
			}
			for _, nm := range vs.Names {
				o := fg.Info.ObjectOf(nm)
				if o == nil || nm.Name == "_" {
					continue
				}
				// a variable that a function literal assigns (a callback that sets a flag) or whose address is
				// taken changes behind the back of the path search: its zero value is not a fact
				if fg.escapes(o) {
					continue
				}
				switch t := o.Type().Underlying().(type) {
				case *types.Basic:
					if t.Kind() == types.Bool {
						set(identFact{o, false}, false)
					}
				case *types.Pointer, *types.Interface, *types.Slice, *types.Map, *types.Chan, *types.Signature:
					set(identFact{o, true}, true)
				case *types.Struct:
					for i := 0; i < t.NumFields(); i++ {
						f := t.Field(i)
						sel := &ast.SelectorExpr{X: nm, Sel: &ast.Ident{Name: f.Name(), NamePos: nm.Pos()}}
						_ = sel
						// the pseudo-variable of d.f: zero like any other variable
						key := fmt.Sprintf("%p.%s", o, f.Name())
						if fg.fieldVars == nil {
							fg.fieldVars = map[string]*types.Var{}
						}
						pv := fg.fieldVars[key]
						if pv == nil {
							pv = types.NewVar(nm.Pos(), o.Pkg(), o.Name()+"."+f.Name(), f.Type())
							fg.fieldVars[key] = pv
						}
						switch ft := f.Type().Underlying().(type) {
						case *types.Basic:
							if ft.Kind() == types.Bool {
								set(identFact{pv, false}, false)
							}
						case *types.Pointer, *types.Interface, *types.Slice, *types.Map:
							set(identFact{pv, true}, true)
						}
					}
				}
			}
		}
		if out == nil {
			return facts
		}
		return out
	}
	as, ok := n.(*ast.AssignStmt)
	if !ok || len(as.Lhs) != len(as.Rhs) || (as.Tok != token.ASSIGN && as.Tok != token.DEFINE) {
		return facts
	}
	for i, l := range as.Lhs {
		o := fg.factObj(l)
		if o == nil {
			continue
		}
		switch boolConst(fg.Info, as.Rhs[i]) {
		case '1':
			set(identFact{o, false}, true)
		case '0':
			set(identFact{o, false}, false)
		default:
			if tv, ok := fg.Info.Types[as.Rhs[i]]; ok && tv.IsNil() {
				set(identFact{o, true}, true)
			} else if b, ok := fg.Info.TypeOf(as.Rhs[i]).Underlying().(*types.Basic); ok && b.Kind() == types.Bool {
				// flag := <condition>: known if the condition is
				cur := facts
				if out != nil {
					cur = out
				}
				switch fg.eval3(as.Rhs[i], cur) {
				case '1':
					set(identFact{o, false}, true)
				case '0':
					set(identFact{o, false}, false)
				}
			}
		}
	}
	if out == nil {
		return facts
	}
	return out
}

func (fg *FlowGraph) killed(n ast.Node, facts map[identFact]bool) map[identFact]bool {
	if len(facts) == 0 {
		return facts
	}
	var dead []types.Object
	inspectNoLit(n, func(x ast.Node) bool {
		switch s := x.(type) {
		case *ast.AssignStmt:
			for _, l := range s.Lhs {
				if id, ok := ast.Unparen(l).(*ast.Ident); ok {
					o := fg.Info.ObjectOf(id)
					dead = append(dead, o)
					dead = append(dead, fg.fieldVarsOf(o)...)
				} else if o := fg.factObj(l); o != nil {
					dead = append(dead, o)
				}
			}
		case *ast.IncDecStmt:
			if id, ok := ast.Unparen(s.X).(*ast.Ident); ok {
				dead = append(dead, fg.Info.ObjectOf(id))
			}
		case *ast.UnaryExpr:
			if s.Op == token.AND {
				if id, ok := ast.Unparen(s.X).(*ast.Ident); ok {
					o := fg.Info.ObjectOf(id)
					dead = append(dead, o)
					dead = append(dead, fg.fieldVarsOf(o)...)
				} else if o := fg.factObj(s.X); o != nil {
					dead = append(dead, o)
				}
			}
		case *ast.RangeStmt:
			for _, e := range []ast.Expr{s.Key, s.Value} {
				if id, ok := e.(*ast.Ident); ok {
					dead = append(dead, fg.Info.ObjectOf(id))
				}
			}
		}
		return true
	})
	if len(dead) == 0 {
		return facts
	}
	out := map[identFact]bool{}
	for k, v := range facts {
		keep := true
		for _, d := range dead {
			if d == k.obj {
				keep = false
			}
		}
		if keep {
			out[k] = v
		}
	}
	return out
}

// Reach runs the query and returns a witness path (block-node positions) if
// a target is reachable.
func (fg *FlowGraph) Reach(q PathQuery) (bool, []ast.Node) {
	startB, startI := fg.G.Blocks[0], 0
	facts := map[identFact]bool{}
	for k, v := range q.Facts {
		facts[k] = v
	}
	if q.Atom != nil {
		old := fg.atom
		fg.atom = q.Atom
		defer func() { fg.atom = old }()
	}
	if q.From.Valid() {
		startB, startI = q.From.Block, q.From.Idx+1
		if q.Correlate {
			facts = fg.closeFacts(fg.identFacts(fg.DominatingFacts(q.From)))
			// a dominating fact is only trusted for identifiers assigned at
			// most once in the whole body (so the test cannot be stale)
			for k := range facts {
				if fg.assignCount(k.obj) > 1 {
					delete(facts, k)
				}
			}
			// facts may have been killed between the dominating edge and From;
			// conservatively drop facts about identifiers assigned anywhere
			// in the dominating chain after their test is not tracked, so
			// only keep facts whose identifier is never assigned between:
			// approximate by killing with the nodes of From's block up to From.
			for i := 0; i <= q.From.Idx && i < len(startB.Nodes); i++ {
				facts = fg.killed(startB.Nodes[i], facts)
			}
			// what the rule states to hold just after From (the effect of From itself, say) comes on top
			if len(q.Facts) > 0 {
				nf := map[identFact]bool{}
				for k, v := range facts {
					nf[k] = v
				}
				for k, v := range q.Facts {
					nf[k] = v
				}
				facts = nf
			}
		}
	}
	type vkey struct {
		b int32
		f string
	}
	visited := map[vkey]bool{}
	var trail []ast.Node
	var walk func(b *cfg.Block, start int, facts map[identFact]bool) bool
	walk = func(b *cfg.Block, start int, facts map[identFact]bool) bool {
		for i := start; i < len(b.Nodes); i++ {
			l := Loc{b, i, b.Nodes[i]}
			fg.curFacts = facts
			if q.Visit != nil {
				q.Visit(l, facts)
			}
			if q.Avoid != nil && q.Avoid(l) {
				return false
			}
			if q.Target != nil && q.Target(l) {
				trail = append(trail, b.Nodes[i])
				return true
			}
			if q.Correlate {
				facts = fg.killed(b.Nodes[i], facts)
				fg.curFacts = facts
				facts = fg.generated(b.Nodes[i], facts)
				fg.curFacts = facts
				if q.Gen != nil {
					facts = q.Gen(b.Nodes[i], facts)
				}
			}
		}
		for si, s := range b.Succs {
			if q.EdgeOK != nil && !q.EdgeOK(b, si) {
				continue
			}
			nf := facts
			fg.curFacts = facts
			if q.Correlate && len(b.Succs) == 2 {
				// the whole condition evaluated under what is known (Kleene logic): a condition known
				// true has no false edge and vice versa
				if cond, tag := fg.condOf(b); cond != nil {
					full := cond
					if tag != nil {
						// a case of a tagged switch is the condition tag == case
						full = &ast.BinaryExpr{X: tag, Op: token.EQL, Y: cond}
					}
					v := byte('?')
					if tag == nil || q.Atom != nil {
						v = fg.eval3(full, facts)
					}
					switch v {
					case '1':
						if si == 1 {
							continue
						}
					case '0':
						if si == 0 {
							continue
						}
					}
				}
				ef := fg.closeFacts(fg.identFacts(fg.edgeFacts(b, si)))
				feasible := true
				for k, v := range ef {
					if old, ok := facts[k]; ok && old != v {
						feasible = false
					}
				}
				if !feasible {
					continue
				}
				if len(ef) > 0 {
					nf = map[identFact]bool{}
					for k, v := range facts {
						nf[k] = v
					}
					for k, v := range ef {
						nf[k] = v
					}
				}
			}
			vk := vkey{s.Index, ""}
			if q.Correlate {
				vk.f = factsKey(nf)
			}
			if visited[vk] {
				continue
			}
			visited[vk] = true
			mark := len(trail)
			if len(b.Nodes) > 0 {
				trail = append(trail, b.Nodes[len(b.Nodes)-1])
			}
			if walk(s, 0, nf) {
				return true
			}
			trail = trail[:mark]
		}
		return false
	}
	ok := walk(startB, startI, facts)
	return ok, trail
}

// condOf returns the condition expression of a two-way block and, for
// switch-case blocks, the tag expression it is compared with.
func (fg *FlowGraph) condOf(b *cfg.Block) (cond ast.Expr, tag ast.Expr) {
	if len(b.Succs) != 2 || len(b.Nodes) == 0 {
		return nil, nil
	}
	e, ok := b.Nodes[len(b.Nodes)-1].(ast.Expr)
	if !ok {
		return nil, nil
	}
	// is this a case expression of a switch with a tag?
	if len(b.Succs) == 2 && b.Succs[0].Kind == cfg.KindSwitchCaseBody {
		if cc, ok := b.Succs[0].Stmt.(*ast.CaseClause); ok {
			for _, ce := range cc.List {
				if ce == e {
					// find the switch statement
					if sw := fg.switchOf(cc); sw != nil && sw.Tag != nil {
						return e, sw.Tag
					}
					return e, nil
				}
			}
		}
	}
	return e, nil
}

func (fg *FlowGraph) switchOf(cc *ast.CaseClause) *ast.SwitchStmt {
	var found *ast.SwitchStmt
	ast.Inspect(fg.Body, func(n ast.Node) bool {
		if found != nil {
			return false
		}
		if sw, ok := n.(*ast.SwitchStmt); ok {
			for _, c := range sw.Body.List {
				if c == cc {
					found = sw
					return false
				}
			}
		}
		return true
	})
	return found
}

// Fact is an atomic boolean fact: expression E is true (Neg=false) or false.
type Fact struct {
	E   ast.Expr
	Neg bool
	Tag ast.Expr // when non-nil the fact is Tag == E (or != when Neg)
}

// edgeFacts decomposes the condition of the edge (b -> b.Succs[si]) into
// atomic facts that must hold (&& on true edges, || on false edges, !).
func (fg *FlowGraph) edgeFacts(b *cfg.Block, si int) []Fact {
	cond, tag := fg.condOf(b)
	if cond == nil {
		return nil
	}
	if tag != nil {
		return []Fact{{E: cond, Neg: si == 1, Tag: tag}}
	}
	var out []Fact
	var rec func(e ast.Expr, truth bool)
	rec = func(e ast.Expr, truth bool) {
		e = ast.Unparen(e)
		switch x := e.(type) {
		case *ast.UnaryExpr:
			if x.Op == token.NOT {
				rec(x.X, !truth)
				return
			}
		case *ast.BinaryExpr:
			if x.Op == token.LAND && truth {
				rec(x.X, true)
				rec(x.Y, true)
				return
			}
			if x.Op == token.LOR && !truth {
				rec(x.X, false)
				rec(x.Y, false)
				return
			}
		}
		out = append(out, Fact{E: e, Neg: !truth})
	}
	rec(cond, si == 0)
	return out
}

// DominatingFacts collects the facts of all edges that dominate location l:
// for each block B on the dominator chain of l.Block with two successors
// where exactly one successor dominates l.Block (and the other does not
// reach it without passing B again), that edge's facts hold at l.
func (fg *FlowGraph) DominatingFacts(l Loc) []Fact {
	var out []Fact
	if !fg.Reachable(l.Block) {
		return nil
	}
	x := int(l.Block.Index)
	for x != 0 {
		d := fg.idom[x]
		db := fg.G.Blocks[d]
		if len(db.Succs) == 2 {
			// which successor leads to x's dominator subtree?
			var hit []int
			for si, s := range db.Succs {
				if fg.BlockDominates(s, fg.G.Blocks[x]) && fg.onlyPred(s, db) {
					hit = append(hit, si)
				}
			}
			if len(hit) == 1 {
				out = append(out, fg.edgeFacts(db, hit[0])...)
			}
		}
		x = d
	}
	return out
}

// onlyPred: every predecessor of s is p (so entering s means the edge p->s
// was taken).
func (fg *FlowGraph) onlyPred(s, p *cfg.Block) bool {
	for _, q := range fg.preds[s.Index] {
		if q != int(p.Index) {
			return false
		}
	}
	return len(fg.preds[s.Index]) > 0
}

// stmtCall returns the call of an expression statement / defer / go, if any.
func stmtCall(n ast.Node) *ast.CallExpr {
	switch s := n.(type) {
	case *ast.ExprStmt:
		c, _ := ast.Unparen(s.X).(*ast.CallExpr)
		return c
	case *ast.DeferStmt:
		return s.Call
	case *ast.GoStmt:
		return s.Call
	}
	return nil
}

// sameExpr: structural equality of two expressions with identifiers resolved
// to the same objects (go/ssa and go/cfg perform no CSE; access paths are
// compared structurally).
func sameExpr(info *types.Info, a, b ast.Expr) bool {
	a, b = ast.Unparen(a), ast.Unparen(b)
	switch x := a.(type) {
	case *ast.Ident:
		y, ok := b.(*ast.Ident)
		if !ok {
			return false
		}
		ox, oy := info.ObjectOf(x), info.ObjectOf(y)
		if ox == nil || oy == nil {
			return x.Name == y.Name
		}
		return ox == oy
	case *ast.SelectorExpr:
		y, ok := b.(*ast.SelectorExpr)
		return ok && x.Sel.Name == y.Sel.Name && sameExpr(info, x.X, y.X)
	case *ast.CallExpr:
		y, ok := b.(*ast.CallExpr)
		if !ok || len(x.Args) != len(y.Args) || !sameExpr(info, x.Fun, y.Fun) {
			return false
		}
		for i := range x.Args {
			if !sameExpr(info, x.Args[i], y.Args[i]) {
				return false
			}
		}
		return true
	case *ast.BasicLit:
		y, ok := b.(*ast.BasicLit)
		return ok && x.Kind == y.Kind && x.Value == y.Value
	case *ast.IndexExpr:
		y, ok := b.(*ast.IndexExpr)
		return ok && sameExpr(info, x.X, y.X) && sameExpr(info, x.Index, y.Index)
	case *ast.StarExpr:
		y, ok := b.(*ast.StarExpr)
		return ok && sameExpr(info, x.X, y.X)
	case *ast.UnaryExpr:
		y, ok := b.(*ast.UnaryExpr)
		return ok && x.Op == y.Op && sameExpr(info, x.X, y.X)
	case *ast.BinaryExpr:
		y, ok := b.(*ast.BinaryExpr)
		return ok && x.Op == y.Op && sameExpr(info, x.X, y.X) && sameExpr(info, x.Y, y.Y)
	}
	return false
}

// assignCount: number of assignments (including := definitions with a value)
// to the object anywhere in the body, literals included.
func (fg *FlowGraph) assignCount(o types.Object) int {
	n := 0
	// the pseudo-variable of a struct field: assignments to d.f, to d as a whole, &d, &d.f
	for key, pv := range fg.fieldVars {
		if pv != o {
			continue
		}
		ast.Inspect(fg.Body, func(x ast.Node) bool {
			switch s := x.(type) {
			case *ast.AssignStmt:
				for _, l := range s.Lhs {
					if fg.factObj(l) == o {
						n++
					} else if id, ok := ast.Unparen(l).(*ast.Ident); ok && strings.HasPrefix(key, fmt.Sprintf("%p.", fg.Info.ObjectOf(id))) {
						n++
					}
				}
			case *ast.IncDecStmt:
				if fg.factObj(s.X) == o {
					n++
				}
			case *ast.UnaryExpr:
				if s.Op == token.AND {
					if fg.factObj(s.X) == o {
						n += 2
					} else if id, ok := ast.Unparen(s.X).(*ast.Ident); ok && strings.HasPrefix(key, fmt.Sprintf("%p.", fg.Info.ObjectOf(id))) {
						n += 2
					}
				}
			}
			return true
		})
		return n
	}
	ast.Inspect(fg.Body, func(x ast.Node) bool {
		switch s := x.(type) {
		case *ast.AssignStmt:
			for _, l := range s.Lhs {
				if id, ok := ast.Unparen(l).(*ast.Ident); ok && fg.Info.ObjectOf(id) == o {
					n++
				}
			}
		case *ast.IncDecStmt:
			if id, ok := ast.Unparen(s.X).(*ast.Ident); ok && fg.Info.ObjectOf(id) == o {
				n++
			}
		case *ast.ValueSpec:
			for i, nm := range s.Names {
				if fg.Info.ObjectOf(nm) == o && i < len(s.Values) {
					n++
				}
			}
		case *ast.RangeStmt:
			for _, e := range []ast.Expr{s.Key, s.Value} {
				if id, ok := e.(*ast.Ident); ok && fg.Info.ObjectOf(id) == o {
					n += 2
				}
			}
		case *ast.UnaryExpr:
			if s.Op == token.AND {
				if id, ok := ast.Unparen(s.X).(*ast.Ident); ok && fg.Info.ObjectOf(id) == o {
					n += 2
				}
			}
		}
		return true
	})
	return n
}

// LocOfOuter returns the location of the block node that textually contains n,
// descending into function literals (the literal's creation point for nodes
// inside a literal).
func (fg *FlowGraph) LocOfOuter(n ast.Node) Loc {
	for _, b := range fg.G.Blocks {
		for i, bn := range b.Nodes {
			if bn.Pos() <= n.Pos() && n.End() <= bn.End() {
				return Loc{b, i, bn}
			}
		}
	}
	return Loc{}
}

// LocOfRange returns the location of a range statement's operand (go/cfg
// evaluates it in the block that precedes the loop header).
func (fg *FlowGraph) LocOfRange(rs *ast.RangeStmt) Loc { return fg.LocOfOuter(rs.X) }

// ---------------------------------------------------------------------------
// XFlow: a flow graph extended, one level deep, by the bodies of helpers that
// the host calls (a step of a protocol extracted into a method is still a step
// of the protocol). Events are found in the host and in the helpers; dominance
// between them is decided from the host's graph, the helper's graph, and
// whether an event inside a helper happens on every normal completion of it.

type xHelper struct {
	fi    *FuncInfo
	fg    *FlowGraph
	sites []Loc // call sites in the host
}

type XLoc struct {
	Outer Loc      // location in the host (for an inner event: the call site of the helper)
	Inner Loc      // location in the helper, valid iff H != nil
	H     *xHelper // nil for an event of the host itself
	N     ast.Node
}

func (l XLoc) Valid() bool { return l.Outer.Valid() }
func (l XLoc) Pos() token.Pos {
	if l.N != nil {
		return l.N.Pos()
	}
	return token.NoPos
}

type XFlow struct {
	c       *Ctx
	info    *types.Info
	Host    *FlowGraph
	helpers []*xHelper
}

func newXFlow(c *Ctx, info *types.Info, host *ast.BlockStmt, isHelper func(*types.Func) bool) *XFlow {
	x := &XFlow{c: c, info: info, Host: newFlowGraph(info, host)}
	byFn := map[*types.Func]*xHelper{}
	byLit := map[*ast.FuncLit]*xHelper{}
	for _, l := range x.Host.Find(func(n ast.Node) bool { _, ok := n.(*ast.CallExpr); return ok }) {
		call := l.Node.(*ast.CallExpr)
		f := callee(info, call)
		if f == nil {
			// a local closure with one definition (writebuf := func() error {…}; … writebuf()) is a helper too
			if h := x.closureHelper(byLit, call); h != nil {
				h.sites = append(h.sites, l)
			}
			continue
		}
		if !isHelper(f) {
			continue
		}
		h := byFn[f]
		if h == nil {
			fi := c.FuncOf(f)
			if fi == nil {
				continue
			}
			h = &xHelper{fi: fi, fg: newFlowGraph(fi.Info(), fi.Decl.Body)}
			byFn[f] = h
			x.helpers = append(x.helpers, h)
		}
		h.sites = append(h.sites, l)
	}
	return x
}

// closureHelper: the call's function is a local variable whose single definition in the enclosing declared
// function is a function literal; the literal's body becomes a helper (under a synthetic FuncInfo).
func (x *XFlow) closureHelper(byLit map[*ast.FuncLit]*xHelper, call *ast.CallExpr) *xHelper {
	id, ok := ast.Unparen(call.Fun).(*ast.Ident)
	if !ok {
		return nil
	}
	v, ok := x.info.ObjectOf(id).(*types.Var)
	if !ok || v.IsField() || v.Pkg() == nil || v.Parent() == v.Pkg().Scope() {
		return nil
	}
	var decl *ast.FuncDecl
	for n := x.c.Parent(call); n != nil; n = x.c.Parent(n) {
		if d, ok := n.(*ast.FuncDecl); ok {
			decl = d
			break
		}
	}
	if decl == nil || decl.Body == nil {
		return nil
	}
	lit, ok := ast.Unparen(resolveLocal(x.info, decl.Body, id)).(*ast.FuncLit)
	if !ok {
		// var f = func…  (a value spec) is not followed by resolveLocal; look for it
		ast.Inspect(decl.Body, func(n ast.Node) bool {
			if vs, ok := n.(*ast.ValueSpec); ok {
				for i, nm := range vs.Names {
					if x.info.ObjectOf(nm) == v && i < len(vs.Values) {
						if l, ok := ast.Unparen(vs.Values[i]).(*ast.FuncLit); ok && countAssignments(x.info, decl.Body, v) == 0 {
							lit = l
						}
					}
				}
			}
			return true
		})
		if lit == nil {
			return nil
		}
	}
	if lit.Body.Pos() <= call.Pos() && call.End() <= lit.Body.End() {
		return nil // recursion
	}
	if h := byLit[lit]; h != nil {
		return h
	}
	var pkg *packages.Package
	for _, pk := range x.c.Pkgs {
		if pk.TypesInfo == x.info {
			pkg = pk
		}
	}
	sig, _ := x.info.TypeOf(lit).(*types.Signature)
	if pkg == nil || sig == nil {
		return nil
	}
	fi := &FuncInfo{
		Obj:  types.NewFunc(lit.Pos(), pkg.Types, decl.Name.Name+"$"+id.Name, sig),
		Decl: &ast.FuncDecl{Name: ast.NewIdent(decl.Name.Name + "$" + id.Name), Type: lit.Type, Body: lit.Body},
		Pkg:  pkg,
	}
	h := &xHelper{fi: fi, fg: newFlowGraph(x.info, lit.Body)}
	byLit[lit] = h
	x.helpers = append(x.helpers, h)
	return h
}

// countAssignments: the number of assignment statements that store to the variable.
func countAssignments(info *types.Info, body ast.Node, v types.Object) int {
	n := 0
	ast.Inspect(body, func(x ast.Node) bool {
		if as, ok := x.(*ast.AssignStmt); ok {
			for _, l := range as.Lhs {
				if id, ok := ast.Unparen(l).(*ast.Ident); ok && info.ObjectOf(id) == v {
					n++
				}
			}
		}
		return true
	})
	return n
}

// Find returns the events matching pred in the host and, per call site, in the helpers.
func (x *XFlow) Find(pred func(ast.Node) bool) []XLoc {
	var out []XLoc
	for _, l := range x.Host.Find(pred) {
		out = append(out, XLoc{Outer: l, N: l.Node})
	}
	for _, h := range x.helpers {
		for _, il := range h.fg.Find(pred) {
			for _, s := range h.sites {
				out = append(out, XLoc{Outer: s, Inner: il, H: h, N: il.Node})
			}
		}
	}
	sort.SliceStable(out, func(i, j int) bool {
		if out[i].Outer.Node.Pos() != out[j].Outer.Node.Pos() {
			return out[i].Outer.Node.Pos() < out[j].Outer.Node.Pos()
		}
		return out[i].Pos() < out[j].Pos()
	})
	return out
}

// mustHappen: the inner event lies on every path from the helper's entry to a normal completion.
func (x *XFlow) mustHappen(l XLoc) bool {
	h := l.H
	skip, _ := h.fg.Reach(PathQuery{
		Target: func(t Loc) bool {
			r, ok := t.Node.(*ast.ReturnStmt)
			return ok && !definiteErrorReturn(h.fg, h.fi.Info(), h.fi, r)
		},
		Avoid: func(t Loc) bool { return t.Block == l.Inner.Block && t.Idx == l.Inner.Idx },
	})
	if skip {
		return false
	}
	// falling off the end
	for _, b := range h.fg.G.Blocks {
		if h.fg.Reachable(b) && len(b.Succs) == 0 && (len(b.Nodes) == 0 || !isReturn(b.Nodes[len(b.Nodes)-1])) {
			// a block that ends in a call that never returns (log.Fatalf, panic, os.Exit) is not a completion
			if len(b.Nodes) > 0 && endsInNoReturn(h.fi.Info(), b.Nodes[len(b.Nodes)-1]) {
				continue
			}
			if ok, _ := reachBlockAvoiding(h.fg, b, func(t Loc) bool { return t.Block == l.Inner.Block && t.Idx == l.Inner.Idx }, func(*cfg.Block, int) bool { return false }); ok {
				return false
			}
		}
	}
	return true
}

// Dominates: whenever b executes, a has executed before.
func (x *XFlow) Dominates(a, b XLoc) bool {
	switch {
	case a.H == nil && b.H == nil:
		return x.Host.Dominates(a.Outer, b.Outer)
	case a.H == nil:
		return x.Host.Dominates(a.Outer, b.Outer) && !(a.Outer.Block == b.Outer.Block && a.Outer.Idx == b.Outer.Idx)
	case b.H == nil:
		if a.Outer.Block == b.Outer.Block && a.Outer.Idx == b.Outer.Idx {
			return false
		}
		return x.Host.Dominates(a.Outer, b.Outer) && x.mustHappen(a)
	case a.H == b.H && a.Outer.Block == b.Outer.Block && a.Outer.Idx == b.Outer.Idx:
		return a.H.fg.Dominates(a.Inner, b.Inner)
	default:
		if a.Outer.Block == b.Outer.Block && a.Outer.Idx == b.Outer.Idx {
			return false
		}
		return x.Host.Dominates(a.Outer, b.Outer) && x.mustHappen(a)
	}
}

// resolveLocal: an identifier with exactly one definition in body stands for that definition's expression.
func resolveLocal(info *types.Info, body ast.Node, e ast.Expr) ast.Expr {
	id, ok := ast.Unparen(e).(*ast.Ident)
	if !ok || body == nil {
		return e
	}
	obj := info.ObjectOf(id)
	var def ast.Expr
	n := 0
	ast.Inspect(body, func(x ast.Node) bool {
		if as, ok := x.(*ast.AssignStmt); ok && len(as.Lhs) == len(as.Rhs) {
			for i, l := range as.Lhs {
				if lid, ok := ast.Unparen(l).(*ast.Ident); ok && info.ObjectOf(lid) == obj {
					n++
					def = as.Rhs[i]
				}
			}
		}
		return true
	})
	if n == 1 && def != nil {
		return def
	}
	return e
}

// endsInNoReturn: the node is (an expression statement of) a call that never returns.
func endsInNoReturn(info *types.Info, n ast.Node) bool {
	if es, ok := n.(*ast.ExprStmt); ok {
		n = es.X
	}
	call, ok := n.(*ast.CallExpr)
	return ok && noReturnCall(info, call)
}

// escapes: the variable is assigned inside a function literal of the body (also as a whole struct or through
// one of its fields) or has its address taken — it can change at any call.
func (fg *FlowGraph) escapes(o types.Object) bool {
	if fg.escaping == nil {
		fg.escaping = map[types.Object]bool{}
		root := func(e ast.Expr) types.Object {
			for {
				switch x := ast.Unparen(e).(type) {
				case *ast.Ident:
					return fg.Info.ObjectOf(x)
				case *ast.SelectorExpr:
					e = x.X
				case *ast.IndexExpr:
					e = x.X
				case *ast.StarExpr:
					e = x.X
				default:
					return nil
				}
			}
		}
		var inLit func(n ast.Node, depth int)
		inLit = func(n ast.Node, depth int) {
			ast.Inspect(n, func(x ast.Node) bool {
				switch s := x.(type) {
				case *ast.FuncLit:
					if depth == 0 {
						inLit(s.Body, 1)
						return false
					}
				case *ast.AssignStmt:
					if depth > 0 {
						for _, l := range s.Lhs {
							if r := root(l); r != nil {
								fg.escaping[r] = true
							}
						}
					}
				case *ast.IncDecStmt:
					if depth > 0 {
						if r := root(s.X); r != nil {
							fg.escaping[r] = true
						}
					}
				case *ast.UnaryExpr:
					if s.Op == token.AND {
						if r := root(s.X); r != nil {
							fg.escaping[r] = true
						}
					}
				}
				return true
			})
		}
		inLit(fg.Body, 0)
	}
	return fg.escaping[o]
}

// shortCircuitFacts: what is known where n is evaluated inside the boolean expression it stands in — the
// operands evaluated before it: in `A && …n…` A holds, in `A || …n…` A fails (go/cfg does not split
// short-circuit conditions into blocks, so DominatingFacts does not know these).
func shortCircuitFacts(p *Program, n ast.Node) []Fact {
	// the outermost boolean expression that contains n
	var top ast.Expr
	for x := p.Parent(n); x != nil; x = p.Parent(x) {
		e, ok := x.(ast.Expr)
		if !ok {
			break
		}
		switch y := e.(type) {
		case *ast.BinaryExpr:
			if y.Op == token.LAND || y.Op == token.LOR {
				top = y
			}
		case *ast.ParenExpr, *ast.UnaryExpr, *ast.CallExpr, *ast.SelectorExpr:
		default:
			_ = y
		}
	}
	if top == nil {
		return nil
	}
	var out []Fact
	var walk func(e ast.Expr)
	walk = func(e ast.Expr) {
		e = ast.Unparen(e)
		switch x := e.(type) {
		case *ast.UnaryExpr:
			if x.Op == token.NOT && containsNode(x.X, n) {
				walk(x.X)
			}
		case *ast.BinaryExpr:
			if x.Op != token.LAND && x.Op != token.LOR {
				return
			}
			if containsNode(x.Y, n) {
				// decompose the left operand like an edge condition
				var rec func(l ast.Expr, truth bool)
				rec = func(l ast.Expr, truth bool) {
					l = ast.Unparen(l)
					if u, ok := l.(*ast.UnaryExpr); ok && u.Op == token.NOT {
						rec(u.X, !truth)
						return
					}
					if b, ok := l.(*ast.BinaryExpr); ok && (b.Op == token.LAND && truth || b.Op == token.LOR && !truth) {
						rec(b.X, truth)
						rec(b.Y, truth)
						return
					}
					out = append(out, Fact{E: l, Neg: !truth})
				}
				rec(x.X, x.Op == token.LAND)
				walk(x.Y)
			} else if containsNode(x.X, n) {
				walk(x.X)
			}
		}
	}
	walk(top)
	return out
}

// expandBoolLocals: a fact about a boolean local that is defined exactly once (unfiltered := len(a) == 0 &&
// len(b) == 0) is a fact about its definition: the definition is decomposed like an edge condition (&& when it
// holds, || when it fails) and the parts are added to the facts.
func expandBoolLocals(info *types.Info, body ast.Node, facts []Fact) []Fact {
	out := append([]Fact(nil), facts...)
	for depth := 0; depth < 3; depth++ {
		added := false
		for _, f := range append([]Fact(nil), out...) {
			if f.Tag != nil {
				continue
			}
			id, ok := ast.Unparen(f.E).(*ast.Ident)
			if !ok {
				continue
			}
			def := valueOf(info, body, id)
			if def == ast.Expr(id) {
				continue
			}
			if b, ok := info.TypeOf(def).Underlying().(*types.Basic); !ok || b.Kind() != types.Bool && b.Kind() != types.UntypedBool {
				continue
			}
			var rec func(e ast.Expr, truth bool)
			rec = func(e ast.Expr, truth bool) {
				e = ast.Unparen(e)
				if u, ok := e.(*ast.UnaryExpr); ok && u.Op == token.NOT {
					rec(u.X, !truth)
					return
				}
				if be, ok := e.(*ast.BinaryExpr); ok && (be.Op == token.LAND && truth || be.Op == token.LOR && !truth) {
					rec(be.X, truth)
					rec(be.Y, truth)
					return
				}
				nf := Fact{E: e, Neg: !truth}
				for _, o := range out {
					if o.E == nf.E && o.Neg == nf.Neg {
						return
					}
				}
				out = append(out, nf)
				added = true
			}
			rec(def, !f.Neg)
		}
		if !added {
			break
		}
	}
	return out
}

// boolDefs: boolean locals assigned exactly once (and not by a closure) from a compound condition.
func (fg *FlowGraph) boolDefs() map[types.Object]ast.Expr {
	if fg.bdefs != nil {
		return fg.bdefs
	}
	fg.bdefs = map[types.Object]ast.Expr{}
	inspectNoLit(fg.Body, func(n ast.Node) bool {
		as, ok := n.(*ast.AssignStmt)
		if !ok || len(as.Lhs) != len(as.Rhs) {
			return true
		}
		for i, l := range as.Lhs {
			id, ok := ast.Unparen(l).(*ast.Ident)
			if !ok {
				continue
			}
			o := fg.Info.ObjectOf(id)
			if o == nil {
				continue
			}
			if b, ok := o.Type().Underlying().(*types.Basic); !ok || b.Kind() != types.Bool {
				continue
			}
			switch x := ast.Unparen(as.Rhs[i]).(type) {
			case *ast.BinaryExpr:
				if x.Op != token.LAND && x.Op != token.LOR {
					continue
				}
			case *ast.UnaryExpr:
				if x.Op != token.NOT {
					continue
				}
			default:
				continue
			}
			if fg.assignCount(o) == 1 && !fg.escapes(o) {
				fg.bdefs[o] = as.Rhs[i]
			}
		}
		return true
	})
	return fg.bdefs
}
