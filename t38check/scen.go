package main

import (
	"go/ast"
	"go/constant"
	"go/token"
	"go/types"
)

// SC — scenario evaluation. A rule describes a situation by fixing the value of a few atomic conditions
// ("this connection is not authenticated", "a password is configured", "this server follows a leader") and
// asks which statements of a function can be reached in that situation. Branch conditions are evaluated
// under the scenario in three-valued logic (FlowGraph.eval3), locals that carry a condition or the result
// of a helper are followed, and a helper called for its verdict (`if err := s.writeGate(); err != nil`) is
// evaluated under the same scenario: if every return it can reach yields the zero value the result is
// known to be zero, if none does it is known to be non-zero. Everything the scenario does not fix stays
// unknown and keeps both edges, so "unreachable in the scenario" is sound for the real program whenever the
// atoms are stable while the function runs (each rule says why its atoms are).

// Scenario builds the oracle for one function body (the oracle needs that body's type information and,
// for atoms whose value depends on what the path has passed, the facts the search carries: fg.curFacts).
// Mark, if set, lets the scenario record such path facts at block nodes.
type Scenario struct {
	Atom func(fg *FlowGraph) func(e ast.Expr) byte
	Mark func(fg *FlowGraph) func(n ast.Node, facts map[identFact]bool) map[identFact]bool
}

// atomsOnly: a scenario without path marks.
func atomsOnly(f func(info *types.Info, body ast.Node) func(e ast.Expr) byte) Scenario {
	return Scenario{Atom: func(fg *FlowGraph) func(e ast.Expr) byte { return f(fg.Info, fg.Body) }}
}

// zeroness of an expression as a result: 'Z' the zero value, 'N' never the zero value, '?' unknown
func (c *Ctx) resultZeroness(info *types.Info, e ast.Expr) byte {
	e = ast.Unparen(e)
	if isZeroLit(info, e) {
		return 'Z'
	}
	if tv, ok := info.Types[e]; ok && tv.Value != nil {
		switch tv.Value.Kind() {
		case constant.String:
			if constant.StringVal(tv.Value) != "" {
				return 'N'
			}
			return 'Z'
		}
		return '?'
	}
	if id, ok := e.(*ast.Ident); ok {
		if v, ok := info.Uses[id].(*types.Var); ok && v.Pkg() != nil && v.Parent() == v.Pkg().Scope() && c.isConstantErrorVar(v) {
			return 'N'
		}
	}
	return '?'
}

var constErrCache = map[*types.Var]bool{}

// isConstantErrorVar: a package-level variable declared as errors.New(...) / fmt.Errorf(...) and never
// assigned anywhere in its package.
func (c *Ctx) isConstantErrorVar(v *types.Var) bool {
	if r, ok := constErrCache[v]; ok {
		return r
	}
	res := false
	defer func() { constErrCache[v] = res }()
	for _, pk := range c.Pkgs {
		if pk.Types != v.Pkg() {
			continue
		}
		declared, assigned := false, false
		for _, f := range pk.Syntax {
			ast.Inspect(f, func(n ast.Node) bool {
				switch x := n.(type) {
				case *ast.ValueSpec:
					for i, nm := range x.Names {
						if pk.TypesInfo.Defs[nm] == v && i < len(x.Values) {
							if call, ok := ast.Unparen(x.Values[i]).(*ast.CallExpr); ok {
								if f := callee(pk.TypesInfo, call); f != nil && (funcKey(f) == "errors.New" || funcKey(f) == "fmt.Errorf") {
									declared = true
								}
							}
						}
					}
				case *ast.AssignStmt:
					for _, l := range x.Lhs {
						if id, ok := ast.Unparen(l).(*ast.Ident); ok && pk.TypesInfo.Uses[id] == v {
							assigned = true
						}
					}
				case *ast.UnaryExpr:
					if x.Op == token.AND {
						if id, ok := ast.Unparen(x.X).(*ast.Ident); ok && pk.TypesInfo.Uses[id] == v {
							assigned = true
						}
					}
				}
				return true
			})
		}
		res = declared && !assigned
	}
	return res
}

// scenCallResult: zeroness of the single result of a tile38 function under the scenario.
func (c *Ctx) scenCallResult(fi *FuncInfo, sc Scenario, depth int) byte {
	if fi == nil || fi.Decl.Body == nil || depth <= 0 {
		return '?'
	}
	sig := fi.Obj.Type().(*types.Signature)
	if sig.Results().Len() != 1 {
		return '?'
	}
	info := fi.Info()
	fg := newFlowGraph(info, fi.Decl.Body)
	named := sig.Results().At(0).Name() != ""
	seenZ, seenN, seenU := false, false, false
	fg.Reach(PathQuery{Correlate: true, Atom: c.withBoolHelpers(sc, depth-1).Atom(fg), Gen: c.scenGen(fg, sc, depth-1), Target: func(l Loc) bool {
		r, ok := l.Node.(*ast.ReturnStmt)
		if !ok {
			return false
		}
		if len(r.Results) != 1 || named {
			seenU = true
			return false
		}
		switch c.resultZeroness(info, r.Results[0]) {
		case 'Z':
			seenZ = true
		case 'N':
			seenN = true
		default:
			// a local whose zeroness the search knows?
			seenU = true
		}
		return false
	}})
	switch {
	case seenU || (seenZ && seenN) || (!seenZ && !seenN):
		return '?'
	case seenZ:
		return 'Z'
	}
	return 'N'
}

// scenGen: `v := helper(...)` / `v = helper(...)` gives v the zeroness of the helper's result under the scenario.
func (c *Ctx) scenGen(fg *FlowGraph, sc Scenario, depth int) func(n ast.Node, facts map[identFact]bool) map[identFact]bool {
	info := fg.Info
	atom := sc.Atom(fg)
	var mark func(n ast.Node, facts map[identFact]bool) map[identFact]bool
	if sc.Mark != nil {
		mark = sc.Mark(fg)
	}
	return func(n ast.Node, facts map[identFact]bool) map[identFact]bool {
		if mark != nil {
			facts = mark(n, facts)
		}
		as, ok := n.(*ast.AssignStmt)
		if ok && len(as.Lhs) == 2 && len(as.Rhs) == 1 {
			// ok, _ := f(...): a call whose first result is a boolean the scenario decides
			if call, isCall := ast.Unparen(as.Rhs[0]).(*ast.CallExpr); isCall {
				if id, isId := ast.Unparen(as.Lhs[0]).(*ast.Ident); isId && id.Name != "_" {
					if o := info.ObjectOf(id); o != nil {
						if b, isB := o.Type().Underlying().(*types.Basic); isB && b.Kind() == types.Bool {
							if v := atom(call); v == '1' || v == '0' {
								out := map[identFact]bool{}
								for k, fv := range facts {
									out[k] = fv
								}
								out[identFact{o, false}] = v == '1'
								return out
							}
						}
					}
				}
			}
			return facts
		}
		if !ok || len(as.Lhs) != 1 || len(as.Rhs) != 1 {
			return facts
		}
		id, ok := ast.Unparen(as.Lhs[0]).(*ast.Ident)
		if !ok {
			return facts
		}
		o := info.ObjectOf(id)
		if o == nil {
			return facts
		}
		var z byte = '?'
		if call, ok := ast.Unparen(as.Rhs[0]).(*ast.CallExpr); ok {
			if f := callee(info, call); f != nil {
				z = c.scenCallResult(c.FuncOf(f), sc, depth)
			}
		} else {
			z = c.resultZeroness(info, as.Rhs[0])
		}
		if z == '?' {
			return facts
		}
		out := map[identFact]bool{}
		for k, v := range facts {
			out[k] = v
		}
		out[identFact{o, true}] = z == 'Z'
		return out
	}
}

// scenBoolResult: the value of the single boolean result of a tile38 function under the scenario.
func (c *Ctx) scenBoolResult(fi *FuncInfo, sc Scenario, depth int) byte {
	if fi == nil || fi.Decl.Body == nil {
		return '?'
	}
	sig := fi.Obj.Type().(*types.Signature)
	if sig.Results().Len() != 1 || sig.Results().At(0).Name() != "" {
		return '?'
	}
	if b, ok := sig.Results().At(0).Type().Underlying().(*types.Basic); !ok || b.Kind() != types.Bool {
		return '?'
	}
	info := fi.Info()
	fg := newFlowGraph(info, fi.Decl.Body)
	seen := map[byte]bool{}
	wsc := c.withBoolHelpers(sc, depth)
	fg.Reach(PathQuery{Correlate: true, Atom: wsc.Atom(fg), Gen: c.scenGen(fg, sc, depth), Visit: func(l Loc, facts map[identFact]bool) {
		if r, ok := l.Node.(*ast.ReturnStmt); ok {
			if len(r.Results) != 1 {
				seen['?'] = true
				return
			}
			seen[fg.eval3(r.Results[0], facts)] = true
		}
	}})
	switch {
	case seen['?'] || (seen['0'] && seen['1']) || len(seen) == 0:
		return '?'
	case seen['1']:
		return '1'
	}
	return '0'
}

// withBoolHelpers: a call of a tile38 function with one boolean result that the scenario itself does not
// decide is evaluated in the callee under the same scenario.
func (c *Ctx) withBoolHelpers(sc Scenario, depth int) Scenario {
	cache := map[*types.Func]byte{}
	out := sc
	out.Atom = func(fg *FlowGraph) func(e ast.Expr) byte {
		info := fg.Info
		base := sc.Atom(fg)
		return func(e ast.Expr) byte {
			if v := base(e); v == '1' || v == '0' {
				return v
			}
			if depth <= 0 {
				return '?'
			}
			call, ok := ast.Unparen(e).(*ast.CallExpr)
			if !ok {
				return '?'
			}
			f := callee(info, call)
			if f == nil {
				return '?'
			}
			if v, ok := cache[f]; ok {
				return v
			}
			cache[f] = '?' // recursion guard
			v := c.scenBoolResult(c.FuncOf(f), sc, depth-1)
			cache[f] = v
			return v
		}
	}
	return out
}

// scenReach: can a node satisfying target be reached from `from` (the entry when invalid) in the scenario
// without passing a node satisfying avoid? Returns the witness path.
func (c *Ctx) scenReach(fg *FlowGraph, body ast.Node, sc Scenario, from Loc, target, avoid func(Loc) bool) (bool, []ast.Node) {
	return fg.Reach(PathQuery{From: from, Correlate: true, Atom: c.withBoolHelpers(sc, 2).Atom(fg), Gen: c.scenGen(fg, sc, 2), Target: target, Avoid: avoid})
}
