package main

import (
	"go/ast"
	"go/token"
	"go/types"
	"sort"
	"strings"
)

func init() {
	register(&Rule{ID: "R7.log-order-delivery", Props: []string{"C07", "C05", "C10"}, Floor: 2,
		Text: "the queues that carry applied writes from the log writer to the live-fence connections are consumed in the order they were filled: starting from the slice fields that writeAOF appends command details to, and following every field that receives an element taken from such a queue, every consumer outside the producers reads element 0 and drops it with q = q[1:] (or ranges forward over the whole queue, or moves it to a local that is consumed the same way, or clears it); an index other than 0 or an ascending loop variable, a reslice that keeps a prefix, a descending loop or a sort is reported — the log order is the order every client must observe",
		Run:  ruleLogOrderDelivery})
}

func ruleLogOrderDelivery(c *Ctx) {
	w := c.Func("internal/server", "Server", "writeAOF")
	if w == nil {
		c.und("anchors", 0, "Server.writeAOF not found")
		return
	}
	isDetailsSlice := func(t types.Type) bool {
		s, ok := t.Underlying().(*types.Slice)
		if !ok {
			return false
		}
		p, ok := s.Elem().(*types.Pointer)
		return ok && isNamedType(p.Elem(), modPath+"/internal/server", "commandDetails")
	}
	// appendedField: F = append(F, …) on a struct field; returns the field
	appendedField := func(info *types.Info, as *ast.AssignStmt) (*types.Var, *ast.CallExpr) {
		if len(as.Lhs) != 1 || len(as.Rhs) != 1 {
			return nil, nil
		}
		f := selField(info, as.Lhs[0])
		if f == nil {
			return nil, nil
		}
		call, ok := ast.Unparen(as.Rhs[0]).(*ast.CallExpr)
		if !ok || len(call.Args) < 2 {
			return nil, nil
		}
		if id, ok := ast.Unparen(call.Fun).(*ast.Ident); !ok || id.Name != "append" || info.Uses[id] != types.Universe.Lookup("append") {
			return nil, nil
		}
		if selField(info, call.Args[0]) != f {
			return nil, nil
		}
		return f, call
	}
	queues := map[*types.Var]string{} // field → how it became a queue
	producers := map[*types.Var]map[*types.Func]bool{}
	addProducer := func(f *types.Var, fn *types.Func) {
		if producers[f] == nil {
			producers[f] = map[*types.Func]bool{}
		}
		producers[f][fn] = true
	}
	// the seed queues: filled by writeAOF itself or by a function that only writeAOF (transitively) calls
	for wf := range c.calledOnlyFrom("writeAOF") {
		wfi := c.FuncOf(wf)
		if wfi == nil || wfi.Decl.Body == nil {
			continue
		}
		winfo := wfi.Info()
		ast.Inspect(wfi.Decl.Body, func(n ast.Node) bool {
			if as, ok := n.(*ast.AssignStmt); ok {
				if f, _ := appendedField(winfo, as); f != nil && isDetailsSlice(f.Type()) {
					queues[f] = "filled by " + wf.Name()
					addProducer(f, wf)
				}
			}
			return true
		})
	}
	if len(queues) == 0 {
		c.und("seed-queue", w.Decl.Pos(), "writeAOF (with the helpers only it calls) appends command details to no slice field: the hand-over to the live connections was not found")
		return
	}
	fns := c.AllFuncs("internal/server")
	// derived queues: F2 = append(F2, x) where x was read from a queue element. "Read from a queue element" travels
	// through locals, through the result of a function that returns such an element, and into the parameter that
	// receives it (popLive() / deliverLive(item) are still the hand-over).
	fromQueue := map[types.Object]bool{}
	returnsFromQueue := map[*types.Func]bool{}
	var isFromQ func(info *types.Info, e ast.Expr) bool
	isFromQ = func(info *types.Info, e ast.Expr) bool {
		switch x := ast.Unparen(e).(type) {
		case *ast.IndexExpr:
			f := selField(info, x.X)
			return f != nil && queues[f] != ""
		case *ast.Ident:
			return fromQueue[info.ObjectOf(x)]
		case *ast.CallExpr:
			f := callee(info, x)
			return f != nil && returnsFromQueue[f]
		}
		return false
	}
	for changed := true; changed; {
		changed = false
		mark := func(o types.Object) {
			if o != nil && !fromQueue[o] {
				fromQueue[o] = true
				changed = true
			}
		}
		for _, fn := range fns {
			info := fn.Info()
			ast.Inspect(fn.Decl.Body, func(n ast.Node) bool {
				switch x := n.(type) {
				case *ast.RangeStmt:
					if f := selField(info, x.X); f != nil && queues[f] != "" {
						if id, ok := x.Value.(*ast.Ident); ok {
							mark(info.ObjectOf(id))
						}
					}
				case *ast.ReturnStmt:
					for _, r := range x.Results {
						if isFromQ(info, r) && !returnsFromQueue[fn.Obj] && enclosingFuncLit(c.Program, x) == nil {
							returnsFromQueue[fn.Obj] = true
							changed = true
						}
					}
				case *ast.CallExpr:
					if f := callee(info, x); f != nil && c.FuncOf(f) != nil {
						if sig, ok := f.Type().(*types.Signature); ok {
							for i, a := range x.Args {
								if i < sig.Params().Len() && !sig.Variadic() && isFromQ(info, a) {
									mark(sig.Params().At(i))
								}
							}
						}
					}
				case *ast.AssignStmt:
					if len(x.Lhs) == len(x.Rhs) {
						for i, r := range x.Rhs {
							if isFromQ(info, r) {
								if id, ok := ast.Unparen(x.Lhs[i]).(*ast.Ident); ok {
									mark(info.ObjectOf(id))
								}
							}
						}
					}
					f, call := appendedField(info, x)
					if f == nil || queues[f] != "" || !isDetailsSlice(f.Type()) {
						return true
					}
					for _, a := range call.Args[1:] {
						if isFromQ(info, a) {
							queues[f] = "receives elements of an ordered queue in " + funcName(fn.Obj)
							addProducer(f, fn.Obj)
							changed = true
						}
					}
				}
				return true
			})
		}
	}
	var qs []*types.Var
	for f := range queues {
		qs = append(qs, f)
	}
	sort.Slice(qs, func(i, j int) bool { return qs[i].Name() < qs[j].Name() })
	for _, q := range qs {
		key := "queue/" + q.Name()
		consumers := 0
		var bad []string
		var badPos token.Pos
		report := func(pos token.Pos, how string) {
			bad = append(bad, c.posStr(pos)+": "+how)
			if badPos == token.NoPos {
				badPos = pos
			}
		}
		for _, fn := range fns {
			info := fn.Info()
			// locals that hold the queue (moved out: d := s.q; s.q = nil)
			isQ := func(e ast.Expr) bool {
				e = ast.Unparen(e)
				if selField(info, e) == q {
					return true
				}
				if id, ok := e.(*ast.Ident); ok {
					r := resolveLocal(info, fn.Decl.Body, id)
					return r != ast.Expr(id) && selField(info, r) == q
				}
				return false
			}
			touches := false
			ast.Inspect(fn.Decl.Body, func(n ast.Node) bool {
				if e, ok := n.(ast.Expr); ok && selField(info, e) == q {
					touches = true
				}
				return true
			})
			if !touches {
				continue
			}
			// ascending loop variables: for i := 0; …; i++
			asc := map[types.Object]bool{}
			ast.Inspect(fn.Decl.Body, func(n ast.Node) bool {
				fs, ok := n.(*ast.ForStmt)
				if !ok {
					return true
				}
				as, ok1 := fs.Init.(*ast.AssignStmt)
				inc, ok2 := fs.Post.(*ast.IncDecStmt)
				if ok1 && ok2 && inc.Tok == token.INC && len(as.Lhs) == 1 && len(as.Rhs) == 1 {
					if tv, ok := info.Types[as.Rhs[0]]; ok && tv.Value != nil && tv.Value.String() == "0" {
						if id, ok := as.Lhs[0].(*ast.Ident); ok {
							if pid, ok := ast.Unparen(inc.X).(*ast.Ident); ok && info.ObjectOf(pid) == info.ObjectOf(id) {
								asc[info.ObjectOf(id)] = true
							}
						}
					}
				}
				return true
			})
			consumed := false
			ast.Inspect(fn.Decl.Body, func(n ast.Node) bool {
				switch x := n.(type) {
				case *ast.IndexExpr:
					if !isQ(x.X) {
						return true
					}
					consumed = true
					if tv, ok := info.Types[x.Index]; ok && tv.Value != nil && tv.Value.String() == "0" {
						return true
					}
					if id, ok := ast.Unparen(x.Index).(*ast.Ident); ok && asc[info.ObjectOf(id)] {
						return true
					}
					report(x.Pos(), "element "+exprStr(x.Index)+" is taken, not the oldest one")
				case *ast.SliceExpr:
					if !isQ(x.X) {
						return true
					}
					// q[k:] drops the oldest k; q[:0] clears
					if x.High == nil && !x.Slice3 {
						return true
					}
					if x.Low == nil && x.High != nil {
						if tv, ok := info.Types[x.High]; ok && tv.Value != nil && tv.Value.String() == "0" {
							return true
						}
					}
					report(x.Pos(), "the queue is cut to "+exprStr(x)+": entries are dropped from its end or middle")
				case *ast.CallExpr:
					if f := callee(info, x); f != nil && f.Pkg() != nil && (f.Pkg().Path() == "sort" || f.Pkg().Path() == "slices") {
						for _, a := range x.Args {
							if isQ(a) {
								report(x.Pos(), "the queue is reordered by "+f.Pkg().Name()+"."+f.Name())
							}
						}
					}
				case *ast.ForStmt:
					// a descending loop over the queue
					if dec, ok := x.Post.(*ast.IncDecStmt); ok && dec.Tok == token.DEC {
						uses := false
						ast.Inspect(x.Body, func(m ast.Node) bool {
							if ix, ok := m.(*ast.IndexExpr); ok && isQ(ix.X) {
								uses = true
							}
							return true
						})
						if uses {
							report(x.Pos(), "the queue is traversed from its end")
						}
					}
				}
				return true
			})
			if consumed && !producers[q][fn.Obj] {
				consumers++
			}
			ast.Inspect(fn.Decl.Body, func(n ast.Node) bool {
				if rs, ok := n.(*ast.RangeStmt); ok && isQ(rs.X) && !producers[q][fn.Obj] {
					consumers++
				}
				return true
			})
		}
		switch {
		case len(bad) > 0:
			c.bad(key, badPos, "Server queue %s (%s) is not consumed oldest-first: %v — a live connection observes writes in an order that is not the order of the log", q.Name(), queues[q], bad)
		case consumers == 0:
			c.und(key, q.Pos(), "no consumer of queue %s found", q.Name())
		default:
			c.ok(key, q.Pos(), true, "%s: every consumer takes element 0 and drops it from the front (or traverses forward)", queues[q])
		}
	}
}

func init() {
	register(&Rule{ID: "R7.lock-primitive", Props: []string{"C07", "C18"}, Floor: 6,
		Text: "every lock argument of C07 rests on the repository's own two implementations of its reader/writer lock interface. The spin lock (a type whose Lock/RLock/Unlock/RUnlock work on one atomic word: 0 free, -1 a writer, n > 0 readers) acquires only by compare-and-swap of a value it just loaded and tested — Lock swaps 0 for a negative constant under `state == 0`, RLock swaps state for state+1 under `state >= 0` — and an acquiring method performs no other modification of the word (no Add, Store or Swap: an optimistic Add(1) turns a writer's -1 into 0 for an instant, and the next reader or writer walks in); releases are Add(+1) for Unlock and Add(-1) for RUnlock. The mutex wrapper's methods reach only the matching method of sync.RWMutex (Lock and LockLowPriority: Lock or a TryLock whose success is tested; RLock: RLock; Unlock: Unlock; RUnlock: RUnlock)",
		Run:  ruleLockPrimitive})
}

func ruleLockPrimitive(c *Ctx) {
	pk := c.Pkgs["internal/server"]
	if pk == nil {
		c.und("anchors", 0, "internal/server not loaded")
		return
	}
	n := 0
	for _, name := range pk.Types.Scope().Names() {
		tn, ok := pk.Types.Scope().Lookup(name).(*types.TypeName)
		if !ok {
			continue
		}
		st, ok := tn.Type().Underlying().(*types.Struct)
		if !ok {
			continue
		}
		ms := map[string]*FuncInfo{}
		for _, m := range []string{"Lock", "Unlock", "RLock", "RUnlock", "LockLowPriority"} {
			if fi := c.Func("internal/server", name, m); fi != nil {
				ms[m] = fi
			}
		}
		if ms["Lock"] == nil || ms["Unlock"] == nil || ms["RLock"] == nil || ms["RUnlock"] == nil {
			continue
		}
		var word, mutex *types.Var
		for i := 0; i < st.NumFields(); i++ {
			f := st.Field(i)
			if isNamedType(f.Type(), "sync/atomic", "Int32") || isNamedType(f.Type(), "sync/atomic", "Int64") {
				word = f
			}
			if isNamedType(f.Type(), "sync", "RWMutex") {
				mutex = f
			}
		}
		for mname, fi := range ms {
			info := fi.Info()
			key := name + "." + mname
			n++
			// calls on the word / on the mutex, and calls of sibling methods
			type op struct {
				name string
				call *ast.CallExpr
			}
			var ops []op
			ast.Inspect(fi.Decl.Body, func(x ast.Node) bool {
				call, ok := x.(*ast.CallExpr)
				if !ok {
					return true
				}
				se, ok := ast.Unparen(call.Fun).(*ast.SelectorExpr)
				if !ok {
					return true
				}
				if fv := selField(info, se.X); fv != nil && (fv == word || fv == mutex) {
					ops = append(ops, op{se.Sel.Name, call})
				}
				return true
			})
			acquire := mname == "Lock" || mname == "RLock" || mname == "LockLowPriority"
			switch {
			case word != nil:
				bad := ""
				fg := newFlowGraph(info, fi.Decl.Body)
				delegates := false
				ast.Inspect(fi.Decl.Body, func(x ast.Node) bool {
					if call, ok := x.(*ast.CallExpr); ok {
						if f := callee(info, call); f != nil && ms["Lock"] != nil && f == ms["Lock"].Obj && mname == "LockLowPriority" {
							delegates = true
						}
					}
					return true
				})
				if delegates && len(ops) == 0 {
					c.ok(key, fi.Decl.Pos(), true, "delegates to Lock")
					continue
				}
				for _, o := range ops {
					switch {
					case o.name == "Load":
					case acquire && o.name == "CompareAndSwap" && len(o.call.Args) == 2:
						nv := ast.Unparen(o.call.Args[1])
						negConst := func(e ast.Expr) bool {
							tv, ok := info.Types[e]
							return ok && tv.Value != nil && strings.HasPrefix(tv.Value.String(), "-")
						}
						isZero := func(e ast.Expr) bool {
							tv, ok := info.Types[e]
							return ok && tv.Value != nil && tv.Value.String() == "0"
						}
						// a writer that swaps the constant 0 for a negative constant needs no guard: the swap itself
						// succeeds only on a free lock
						if mname != "RLock" && isZero(o.call.Args[0]) && negConst(nv) {
							break
						}
						// otherwise the expected value is a local loaded from the word, tested on the way to the swap
						id, ok := ast.Unparen(o.call.Args[0]).(*ast.Ident)
						if !ok {
							bad = "CompareAndSwap with an expected value that is neither the constant 0 nor a loaded local"
							break
						}
						def, _ := ast.Unparen(resolveLocalIn(info, fi.Decl.Body, id)).(*ast.CallExpr)
						if def == nil {
							bad = "the expected value of CompareAndSwap is not the result of a Load of the word"
							break
						}
						if dse, ok := ast.Unparen(def.Fun).(*ast.SelectorExpr); !ok || dse.Sel.Name != "Load" || selField(info, dse.X) != word {
							bad = "the expected value of CompareAndSwap is not the result of a Load of the word"
							break
						}
						// what is known where the swap is evaluated: the facts that dominate the statement, and inside
						// the condition it stands in the operands evaluated before it (A && swap: A holds; A || swap: A fails)
						l := fg.LocOfOuter(o.call)
						guardOK := false
						var facts []Fact
						if l.Valid() {
							facts = fg.DominatingFacts(l)
						}
						if cond := enclosingCond(c, o.call); cond != nil {
							var walk func(e ast.Expr)
							walk = func(e ast.Expr) {
								e = ast.Unparen(e)
								switch x := e.(type) {
								case *ast.UnaryExpr:
									if x.Op == token.NOT && containsNode(x.X, o.call) {
										walk(x.X)
									}
								case *ast.BinaryExpr:
									if x.Op != token.LAND && x.Op != token.LOR {
										return
									}
									if containsNode(x.Y, o.call) {
										facts = append(facts, Fact{E: x.X, Neg: x.Op == token.LOR})
										walk(x.Y)
									} else if containsNode(x.X, o.call) {
										walk(x.X)
									}
								}
							}
							walk(cond)
						}
						// flatten conjunctions that hold / disjunctions that fail
						var atoms []Fact
						var flat func(f Fact)
						flat = func(f Fact) {
							e := ast.Unparen(f.E)
							if u, ok := e.(*ast.UnaryExpr); ok && u.Op == token.NOT {
								flat(Fact{E: u.X, Neg: !f.Neg})
								return
							}
							if be, ok := e.(*ast.BinaryExpr); ok && (be.Op == token.LAND && !f.Neg || be.Op == token.LOR && f.Neg) {
								flat(Fact{E: be.X, Neg: f.Neg})
								flat(Fact{E: be.Y, Neg: f.Neg})
								return
							}
							atoms = append(atoms, Fact{E: e, Neg: f.Neg})
						}
						for _, f := range facts {
							if f.Tag == nil {
								flat(f)
							}
						}
						negOp := map[token.Token]token.Token{token.LSS: token.GEQ, token.GEQ: token.LSS, token.GTR: token.LEQ, token.LEQ: token.GTR, token.EQL: token.NEQ, token.NEQ: token.EQL}
						flipOp := map[token.Token]token.Token{token.LSS: token.GTR, token.GTR: token.LSS, token.LEQ: token.GEQ, token.GEQ: token.LEQ, token.EQL: token.EQL, token.NEQ: token.NEQ}
						for _, f := range atoms {
							be, ok := ast.Unparen(f.E).(*ast.BinaryExpr)
							if !ok {
								continue
							}
							op, x, y := be.Op, be.X, be.Y
							if _, known := negOp[op]; !known {
								continue
							}
							if lid, ok := ast.Unparen(y).(*ast.Ident); ok && info.ObjectOf(lid) == info.ObjectOf(id) {
								op, x, y = flipOp[op], y, x
							}
							lid, ok := ast.Unparen(x).(*ast.Ident)
							if !ok || info.ObjectOf(lid) != info.ObjectOf(id) {
								continue
							}
							if f.Neg {
								op = negOp[op]
							}
							tv, ok := info.Types[y]
							if !ok || tv.Value == nil {
								continue
							}
							k := tv.Value.String()
							if mname == "RLock" && (op == token.GEQ && k == "0" || op == token.GTR && k == "-1") {
								// new value state+1
								if nb, ok := nv.(*ast.BinaryExpr); ok && nb.Op == token.ADD {
									for _, pr := range [][2]ast.Expr{{nb.X, nb.Y}, {nb.Y, nb.X}} {
										if nid, ok := ast.Unparen(pr[0]).(*ast.Ident); ok && info.ObjectOf(nid) == info.ObjectOf(id) {
											if tv, ok := info.Types[pr[1]]; ok && tv.Value != nil && tv.Value.String() == "1" {
												guardOK = true
											}
										}
									}
								}
							}
							if mname != "RLock" && op == token.EQL && k == "0" && negConst(nv) {
								guardOK = true
							}
						}
						if !guardOK {
							bad = "the CompareAndSwap is not guarded by the test of the loaded value it needs (== 0 for a writer with a negative new value, >= 0 for a reader with state+1)"
						}
					case !acquire && o.name == "Add" && len(o.call.Args) == 1:
						want := "1"
						if mname == "RUnlock" {
							want = "-1"
						}
						if tv, ok := info.Types[o.call.Args[0]]; !ok || tv.Value == nil || tv.Value.String() != want {
							bad = "the release adds " + exprStr(o.call.Args[0]) + " to the word, expected " + want
						}
					default:
						if acquire {
							bad = "an acquiring method modifies the word with " + o.name + " (only a guarded CompareAndSwap may): between an optimistic Add and its undo the word shows a state that is not the lock's, and another reader or writer acquires on it"
						} else {
							bad = "a releasing method uses " + o.name
						}
					}
					if bad != "" {
						c.bad(key, o.call.Pos(), "%s.%s: %s", name, mname, bad)
						break
					}
				}
				if bad == "" {
					if len(ops) == 0 {
						c.bad(key, fi.Decl.Pos(), "%s.%s never touches the lock word", name, mname)
					} else {
						c.ok(key, fi.Decl.Pos(), true, "works on the lock word only through the permitted operations")
					}
				}
			case mutex != nil:
				allowed := map[string]map[string]bool{
					"Lock": {"Lock": true, "TryLock": true}, "LockLowPriority": {"Lock": true, "TryLock": true},
					"RLock": {"RLock": true}, "Unlock": {"Unlock": true}, "RUnlock": {"RUnlock": true},
				}[mname]
				bad := ""
				for _, o := range ops {
					if !allowed[o.name] {
						bad = o.name
					}
				}
				switch {
				case bad != "":
					c.bad(key, fi.Decl.Pos(), "%s.%s calls %s on the wrapped sync.RWMutex", name, mname, bad)
				case len(ops) == 0:
					c.bad(key, fi.Decl.Pos(), "%s.%s never reaches the wrapped sync.RWMutex", name, mname)
				default:
					c.ok(key, fi.Decl.Pos(), true, "reaches only the matching method of sync.RWMutex")
				}
			default:
				c.und(key, fi.Decl.Pos(), "a lock implementation that is neither a word-based spin lock nor a sync.RWMutex wrapper")
			}
		}
	}
	c.stat("lock_methods", n)
}

// enclosingCond: the condition expression (of an if or for) that contains n, or nil.
func enclosingCond(c *Ctx, n ast.Node) ast.Expr {
	for p := c.Parent(n); p != nil; p = c.Parent(p) {
		switch x := p.(type) {
		case *ast.IfStmt:
			if containsNode(x.Cond, n) {
				return x.Cond
			}
			return nil
		case *ast.ForStmt:
			if x.Cond != nil && containsNode(x.Cond, n) {
				return x.Cond
			}
			return nil
		case *ast.FuncDecl, *ast.FuncLit:
			return nil
		}
	}
	return nil
}

func flattenAnd(e ast.Expr, out *[]ast.Expr) {
	e = ast.Unparen(e)
	if be, ok := e.(*ast.BinaryExpr); ok && be.Op == token.LAND {
		flattenAnd(be.X, out)
		flattenAnd(be.Y, out)
		return
	}
	*out = append(*out, e)
}
