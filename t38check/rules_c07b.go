package main

import (
	"go/ast"
	"go/token"
	"go/types"
	"sort"
)

func init() {
	register(&Rule{ID: "R7.log-order-delivery", Props: []string{"C07", "C05", "C10"}, Floor: 2,
		Text: "the queues that carry applied writes from the log writer to the live-fence connections are consumed in the order they were filled: starting from the slice fields that writeAOF appends command details to, and following every field that receives an element taken from such a queue, every consumer outside the producers reads element 0 and drops it with q = q[1:] (or ranges forward over the whole queue, or moves it to a local that is consumed the same way, or clears it); an index other than 0 or an ascending loop variable, a reslice that keeps a prefix, a descending loop or a sort is reported — the log order is the order every client must observe",
		Run:  ruleLogOrderDelivery})
}

func ruleLogOrderDelivery(c *Ctx) {
	w := c.Func("internal/server", "Server", "writeAOF")
	if w == nil {
		c.und("anchors", 0, "Server.writeAOF not found")
		return
	}
	isDetailsSlice := func(t types.Type) bool {
		s, ok := t.Underlying().(*types.Slice)
		if !ok {
			return false
		}
		p, ok := s.Elem().(*types.Pointer)
		return ok && isNamedType(p.Elem(), modPath+"/internal/server", "commandDetails")
	}
	// appendedField: F = append(F, …) on a struct field; returns the field
	appendedField := func(info *types.Info, as *ast.AssignStmt) (*types.Var, *ast.CallExpr) {
		if len(as.Lhs) != 1 || len(as.Rhs) != 1 {
			return nil, nil
		}
		f := selField(info, as.Lhs[0])
		if f == nil {
			return nil, nil
		}
		call, ok := ast.Unparen(as.Rhs[0]).(*ast.CallExpr)
		if !ok || len(call.Args) < 2 {
			return nil, nil
		}
		if id, ok := ast.Unparen(call.Fun).(*ast.Ident); !ok || id.Name != "append" || info.Uses[id] != types.Universe.Lookup("append") {
			return nil, nil
		}
		if selField(info, call.Args[0]) != f {
			return nil, nil
		}
		return f, call
	}
	queues := map[*types.Var]string{} // field → how it became a queue
	producers := map[*types.Var]map[*types.Func]bool{}
	addProducer := func(f *types.Var, fn *types.Func) {
		if producers[f] == nil {
			producers[f] = map[*types.Func]bool{}
		}
		producers[f][fn] = true
	}
	// the seed queues: filled by writeAOF itself or by a function that only writeAOF (transitively) calls
	for wf := range c.calledOnlyFrom("writeAOF") {
		wfi := c.FuncOf(wf)
		if wfi == nil || wfi.Decl.Body == nil {
			continue
		}
		winfo := wfi.Info()
		ast.Inspect(wfi.Decl.Body, func(n ast.Node) bool {
			if as, ok := n.(*ast.AssignStmt); ok {
				if f, _ := appendedField(winfo, as); f != nil && isDetailsSlice(f.Type()) {
					queues[f] = "filled by " + wf.Name()
					addProducer(f, wf)
				}
			}
			return true
		})
	}
	if len(queues) == 0 {
		c.und("seed-queue", w.Decl.Pos(), "writeAOF (with the helpers only it calls) appends command details to no slice field: the hand-over to the live connections was not found")
		return
	}
	fns := c.AllFuncs("internal/server")
	// derived queues: F2 = append(F2, x) where x was read from a queue element. "Read from a queue element" travels
	// through locals, through the result of a function that returns such an element, and into the parameter that
	// receives it (popLive() / deliverLive(item) are still the hand-over).
	fromQueue := map[types.Object]bool{}
	returnsFromQueue := map[*types.Func]bool{}
	var isFromQ func(info *types.Info, e ast.Expr) bool
	isFromQ = func(info *types.Info, e ast.Expr) bool {
		switch x := ast.Unparen(e).(type) {
		case *ast.IndexExpr:
			f := selField(info, x.X)
			return f != nil && queues[f] != ""
		case *ast.Ident:
			return fromQueue[info.ObjectOf(x)]
		case *ast.CallExpr:
			f := callee(info, x)
			return f != nil && returnsFromQueue[f]
		}
		return false
	}
	for changed := true; changed; {
		changed = false
		mark := func(o types.Object) {
			if o != nil && !fromQueue[o] {
				fromQueue[o] = true
				changed = true
			}
		}
		for _, fn := range fns {
			info := fn.Info()
			ast.Inspect(fn.Decl.Body, func(n ast.Node) bool {
				switch x := n.(type) {
				case *ast.RangeStmt:
					if f := selField(info, x.X); f != nil && queues[f] != "" {
						if id, ok := x.Value.(*ast.Ident); ok {
							mark(info.ObjectOf(id))
						}
					}
				case *ast.ReturnStmt:
					for _, r := range x.Results {
						if isFromQ(info, r) && !returnsFromQueue[fn.Obj] && enclosingFuncLit(c.Program, x) == nil {
							returnsFromQueue[fn.Obj] = true
							changed = true
						}
					}
				case *ast.CallExpr:
					if f := callee(info, x); f != nil && c.FuncOf(f) != nil {
						if sig, ok := f.Type().(*types.Signature); ok {
							for i, a := range x.Args {
								if i < sig.Params().Len() && !sig.Variadic() && isFromQ(info, a) {
									mark(sig.Params().At(i))
								}
							}
						}
					}
				case *ast.AssignStmt:
					if len(x.Lhs) == len(x.Rhs) {
						for i, r := range x.Rhs {
							if isFromQ(info, r) {
								if id, ok := ast.Unparen(x.Lhs[i]).(*ast.Ident); ok {
									mark(info.ObjectOf(id))
								}
							}
						}
					}
					f, call := appendedField(info, x)
					if f == nil || queues[f] != "" || !isDetailsSlice(f.Type()) {
						return true
					}
					for _, a := range call.Args[1:] {
						if isFromQ(info, a) {
							queues[f] = "receives elements of an ordered queue in " + funcName(fn.Obj)
							addProducer(f, fn.Obj)
							changed = true
						}
					}
				}
				return true
			})
		}
	}
	var qs []*types.Var
	for f := range queues {
		qs = append(qs, f)
	}
	sort.Slice(qs, func(i, j int) bool { return qs[i].Name() < qs[j].Name() })
	for _, q := range qs {
		key := "queue/" + q.Name()
		consumers := 0
		var bad []string
		var badPos token.Pos
		report := func(pos token.Pos, how string) {
			bad = append(bad, c.posStr(pos)+": "+how)
			if badPos == token.NoPos {
				badPos = pos
			}
		}
		for _, fn := range fns {
			info := fn.Info()
			// locals that hold the queue (moved out: d := s.q; s.q = nil)
			isQ := func(e ast.Expr) bool {
				e = ast.Unparen(e)
				if selField(info, e) == q {
					return true
				}
				if id, ok := e.(*ast.Ident); ok {
					r := resolveLocal(info, fn.Decl.Body, id)
					return r != ast.Expr(id) && selField(info, r) == q
				}
				return false
			}
			touches := false
			ast.Inspect(fn.Decl.Body, func(n ast.Node) bool {
				if e, ok := n.(ast.Expr); ok && selField(info, e) == q {
					touches = true
				}
				return true
			})
			if !touches {
				continue
			}
			// ascending loop variables: for i := 0; …; i++
			asc := map[types.Object]bool{}
			ast.Inspect(fn.Decl.Body, func(n ast.Node) bool {
				fs, ok := n.(*ast.ForStmt)
				if !ok {
					return true
				}
				as, ok1 := fs.Init.(*ast.AssignStmt)
				inc, ok2 := fs.Post.(*ast.IncDecStmt)
				if ok1 && ok2 && inc.Tok == token.INC && len(as.Lhs) == 1 && len(as.Rhs) == 1 {
					if tv, ok := info.Types[as.Rhs[0]]; ok && tv.Value != nil && tv.Value.String() == "0" {
						if id, ok := as.Lhs[0].(*ast.Ident); ok {
							if pid, ok := ast.Unparen(inc.X).(*ast.Ident); ok && info.ObjectOf(pid) == info.ObjectOf(id) {
								asc[info.ObjectOf(id)] = true
							}
						}
					}
				}
				return true
			})
			consumed := false
			ast.Inspect(fn.Decl.Body, func(n ast.Node) bool {
				switch x := n.(type) {
				case *ast.IndexExpr:
					if !isQ(x.X) {
						return true
					}
					consumed = true
					if tv, ok := info.Types[x.Index]; ok && tv.Value != nil && tv.Value.String() == "0" {
						return true
					}
					if id, ok := ast.Unparen(x.Index).(*ast.Ident); ok && asc[info.ObjectOf(id)] {
						return true
					}
					report(x.Pos(), "element "+exprStr(x.Index)+" is taken, not the oldest one")
				case *ast.SliceExpr:
					if !isQ(x.X) {
						return true
					}
					// q[k:] drops the oldest k; q[:0] clears
					if x.High == nil && !x.Slice3 {
						return true
					}
					if x.Low == nil && x.High != nil {
						if tv, ok := info.Types[x.High]; ok && tv.Value != nil && tv.Value.String() == "0" {
							return true
						}
					}
					report(x.Pos(), "the queue is cut to "+exprStr(x)+": entries are dropped from its end or middle")
				case *ast.CallExpr:
					if f := callee(info, x); f != nil && f.Pkg() != nil && (f.Pkg().Path() == "sort" || f.Pkg().Path() == "slices") {
						for _, a := range x.Args {
							if isQ(a) {
								report(x.Pos(), "the queue is reordered by "+f.Pkg().Name()+"."+f.Name())
							}
						}
					}
				case *ast.ForStmt:
					// a descending loop over the queue
					if dec, ok := x.Post.(*ast.IncDecStmt); ok && dec.Tok == token.DEC {
						uses := false
						ast.Inspect(x.Body, func(m ast.Node) bool {
							if ix, ok := m.(*ast.IndexExpr); ok && isQ(ix.X) {
								uses = true
							}
							return true
						})
						if uses {
							report(x.Pos(), "the queue is traversed from its end")
						}
					}
				}
				return true
			})
			if consumed && !producers[q][fn.Obj] {
				consumers++
			}
			ast.Inspect(fn.Decl.Body, func(n ast.Node) bool {
				if rs, ok := n.(*ast.RangeStmt); ok && isQ(rs.X) && !producers[q][fn.Obj] {
					consumers++
				}
				return true
			})
		}
		switch {
		case len(bad) > 0:
			c.bad(key, badPos, "Server queue %s (%s) is not consumed oldest-first: %v — a live connection observes writes in an order that is not the order of the log", q.Name(), queues[q], bad)
		case consumers == 0:
			c.und(key, q.Pos(), "no consumer of queue %s found", q.Name())
		default:
			c.ok(key, q.Pos(), true, "%s: every consumer takes element 0 and drops it from the front (or traverses forward)", queues[q])
		}
	}
}
