package main

import (
	"fmt"
	"go/ast"
	"go/constant"
	"go/token"
	"go/types"
	"sort"
	"strings"
)

func init() {
	register(&Rule{ID: "R9.shrinklog-capture", Props: []string{"C09"}, Floor: 2,
		Text: "in writeAOF the test of Server.shrinking dominates the append to aofbuf, and the append to shrinklog is guarded by that test only (beyond what already guards the test): a command is never in the live log but missing from the shrink log while a shrink is running",
		Run:  ruleShrinklogCapture})
	register(&Rule{ID: "R9.swap-order", Props: []string{"C09"}, Floor: 8,
		Text: "in the final step of aofshrink (the function literal that renames the shrink file), under one exclusive critical section with no release: flushAOF → write of the shrink log → Sync → close live → close new → Rename(shrink→live) → OpenFile → Seek(0,2) → store to aofsz, each dominating the next; shrinking is set before the snapshot starts and cleared only in the deferred epilogue",
		Run:  ruleSwapOrder})
	register(&Rule{ID: "R9.live-never-absent", Props: []string{"C09"}, Floor: 1,
		Text: "nowhere in the server is the live log path the source of an os.Rename or the argument of an os.Remove: at every instant of the shrink the data directory contains a complete log under the name start-up opens",
		Run:  ruleLiveNeverAbsent})
	register(&Rule{ID: "R9.options-agree", Props: []string{"C09"}, Floor: 4,
		Text: "the option words aofshrink emits for objects are case labels of cmdSET's option switch, and those it emits for hooks/channels are case labels of cmdSetHook's option switch (writer and reader vocabularies agree)",
		Run:  ruleOptionsAgree})
	register(&Rule{ID: "R9.resume-cursor", Props: []string{"C09"}, Floor: 2,
		Text: "in both batch iterators of aofshrink the resume cursor (nextkey, nextid) is stored only on the path that stops the scan (returns false) before anything is emitted for that element, and the cursor is passed to an inclusive range scan (Ascend, ScanGreaterOrEqual), so the element that stopped a batch is the first of the next",
		Run:  ruleResumeCursor})
}

func ruleShrinklogCapture(c *Ctx) {
	fn := c.Func("internal/server", "Server", "writeAOF")
	if fn == nil {
		c.und("anchors", 0, "writeAOF not found")
		return
	}
	info := fn.Info()
	shrinking := c.Field("internal/server", "Server", "shrinking")
	shrinklog := c.Field("internal/server", "Server", "shrinklog")
	aofbuf := c.Field("internal/server", "Server", "aofbuf")
	fg := newFlowGraph(info, fn.Decl.Body)
	mentionsShrinking := func(inf *types.Info, e ast.Node) bool {
		hit := false
		ast.Inspect(e, func(n ast.Node) bool {
			if se, ok := n.(*ast.SelectorExpr); ok && selField(inf, se) == shrinking {
				hit = true
			}
			return true
		})
		return hit
	}
	// helpers: functions only writeAOF calls are parts of it
	helpers := c.calledOnlyFrom("writeAOF")
	type helperInfo struct {
		fi       *FuncInfo
		fg       *FlowGraph
		captures []Loc // appends to shrinklog
		grows    []Loc // stores to aofbuf
	}
	hinfo := map[*types.Func]*helperInfo{}
	helperOf := func(call *ast.CallExpr) *helperInfo {
		f := callee(info, call)
		if f == nil || f == fn.Obj || !helpers[f] {
			return nil
		}
		if h, ok := hinfo[f]; ok {
			return h
		}
		fi := c.FuncOf(f)
		if fi == nil || fi.Decl.Body == nil {
			hinfo[f] = nil
			return nil
		}
		h := &helperInfo{fi: fi, fg: newFlowGraph(fi.Info(), fi.Decl.Body)}
		h.captures = h.fg.Find(func(n ast.Node) bool {
			as, ok := n.(*ast.AssignStmt)
			return ok && len(as.Lhs) == 1 && selField(fi.Info(), as.Lhs[0]) == shrinklog
		})
		h.grows = h.fg.Find(func(n ast.Node) bool {
			as, ok := n.(*ast.AssignStmt)
			return ok && len(as.Lhs) == 1 && selField(fi.Info(), as.Lhs[0]) == aofbuf
		})
		hinfo[f] = h
		return h
	}
	// the capture in writeAOF: the test of s.shrinking that guards an inline append, or the call of a helper
	// that appends to shrinklog
	tests := fg.Find(func(n ast.Node) bool {
		se, ok := n.(*ast.SelectorExpr)
		return ok && selField(info, se) == shrinking
	})
	var testLoc Loc
	for _, t := range tests {
		if cond, _ := fg.condOf(t.Block); cond != nil && containsNode(cond, t.Node) {
			testLoc = Loc{t.Block, len(t.Block.Nodes) - 1, cond}
		}
	}
	var captureHelper *helperInfo
	if !testLoc.Valid() {
		for _, l := range fg.Find(func(n ast.Node) bool {
			call, ok := n.(*ast.CallExpr)
			if !ok {
				return false
			}
			h := helperOf(call)
			return h != nil && len(h.captures) > 0
		}) {
			testLoc = fg.LocOfOuter(l.Node)
			captureHelper = helperOf(l.Node.(*ast.CallExpr))
		}
	}
	// an append to aofbuf: a direct store, or a call of a function whose (synchronous) effects write it
	mu := c.muLK()
	grows := fg.Find(func(n ast.Node) bool {
		if as, ok := n.(*ast.AssignStmt); ok && len(as.Lhs) == 1 && selField(info, as.Lhs[0]) == aofbuf {
			return true
		}
		if call, ok := n.(*ast.CallExpr); ok && mu.err == "" {
			if f := callee(info, call); f != nil && f != fn.Obj {
				if u := mu.lk.ofDecl[f]; u != nil && len(mu.lk.effects(u, map[string]bool{"Server.aofbuf": true})) > 0 {
					return true
				}
			}
		}
		return false
	})
	logs := fg.Find(func(n ast.Node) bool {
		as, ok := n.(*ast.AssignStmt)
		return ok && len(as.Lhs) == 1 && selField(info, as.Lhs[0]) == shrinklog
	})
	if !testLoc.Valid() || len(grows) == 0 || (len(logs) == 0 && captureHelper == nil) {
		c.bad("anchors", fn.Decl.Pos(), "writeAOF has no test of s.shrinking, no append to aofbuf or no append to shrinklog")
		return
	}
	okDom := true
	for _, g := range grows {
		if !fg.Dominates(testLoc, fg.LocOfOuter(g.Node)) && !fg.Dominates(testLoc, g) {
			okDom = false
		}
	}
	// a helper captures on every path on which a rewrite is running
	if captureHelper != nil {
		hfi := captureHelper.fi
		sc := atomsOnly(func(inf *types.Info, body ast.Node) func(e ast.Expr) byte {
			return func(e ast.Expr) byte {
				if se, ok := ast.Unparen(e).(*ast.SelectorExpr); ok && selField(inf, se) == shrinking {
					return '1'
				}
				return '?'
			}
		})
		skip, _ := c.scenReach(captureHelper.fg, hfi.Decl.Body, sc, Loc{}, func(l Loc) bool {
			_, ok := l.Node.(*ast.ReturnStmt)
			return ok || l.Block.Succs == nil && l.Idx == len(l.Block.Nodes)-1
		}, func(l Loc) bool {
			for _, cp := range captureHelper.captures {
				if cp.Block == l.Block && cp.Idx == l.Idx {
					return true
				}
			}
			return false
		})
		if skip {
			okDom = false
		}
	}
	c.check(okDom, "test-dominates-live-append", testLoc.Node.Pos(), "the s.shrinking test (inline, or in the helper that captures) precedes every append to aofbuf on every path", "aofbuf can grow on a path that never tests s.shrinking (or the capturing helper can return without capturing while a rewrite runs): the command is missing from the shrink log")
	// the converse: the live log receives the command whether or not a rewrite is running — until the final swap the
	// old file is the only durable copy of what was acknowledged during the rewrite
	indep := true
	var depAt ast.Node
	for _, g := range grows {
		for _, f := range fg.DominatingFacts(g) {
			if mentionsShrinking(info, f.E) {
				indep = false
				depAt = g.Node
			}
		}
		// inside a helper: the guards of its own stores to aofbuf
		if call, ok := g.Node.(*ast.CallExpr); ok {
			if h := helperOf(call); h != nil {
				for _, hg := range h.grows {
					for _, f := range h.fg.DominatingFacts(hg) {
						if mentionsShrinking(h.fi.Info(), f.E) {
							indep = false
							depAt = hg.Node
						}
					}
				}
			}
		}
	}
	pos := testLoc.Node.Pos()
	if depAt != nil {
		pos = depAt.Pos()
	}
	c.check(indep, "live-append-independent-of-shrinking", pos, "the append to the live log buffer does not depend on s.shrinking", "the command reaches the live log buffer only when no rewrite is running: a write acknowledged during AOFSHRINK exists only in the in-memory shrink log, and a crash (or a failed rewrite) before the final rename loses it")
	// guards of the shrinklog append = guards of the test + {s.shrinking}
	base := map[string]bool{}
	for _, f := range fg.DominatingFacts(testLoc) {
		base[factStr(f)] = true
	}
	var extra []string
	var logPos ast.Node
	if captureHelper != nil {
		logPos = captureHelper.captures[0].Node
		for _, f := range captureHelper.fg.DominatingFacts(captureHelper.captures[0]) {
			if !f.Neg && selField(captureHelper.fi.Info(), f.E) == shrinking {
				continue
			}
			extra = append(extra, factStr(f))
		}
	} else {
		logPos = logs[0].Node
		for _, f := range fg.DominatingFacts(logs[0]) {
			if base[factStr(f)] {
				continue
			}
			if !f.Neg && selField(info, f.E) == shrinking {
				continue
			}
			extra = append(extra, factStr(f))
		}
	}
	c.check(len(extra) == 0, "shrinklog-guarded-only-by-flag", logPos.Pos(), "the shrinklog append is guarded by s.shrinking alone", fmt.Sprintf("the shrinklog append is additionally guarded by %v: some logged commands are not captured", extra))
}

func factStr(f Fact) string {
	s := exprStr(f.E)
	if f.Tag != nil {
		s = exprStr(f.Tag) + "==" + s
	}
	if f.Neg {
		return "!(" + s + ")"
	}
	return s
}

// finalShrinkLit: the function literal in aofshrink that calls os.Rename.
func finalShrinkLit(c *Ctx) (*FuncInfo, *ast.FuncLit) {
	fn := c.Func("internal/server", "Server", "aofshrink")
	if fn == nil {
		return nil, nil
	}
	var best *ast.FuncLit
	ast.Inspect(fn.Decl.Body, func(n ast.Node) bool {
		lit, ok := n.(*ast.FuncLit)
		if !ok {
			return true
		}
		has := false
		helpers := c.calledOnlyFrom("aofshrink")
		inspectNoLit(lit.Body, func(x ast.Node) bool {
			call, ok := x.(*ast.CallExpr)
			if !ok {
				return true
			}
			f := callee(fn.Info(), call)
			if isFunc(f, "os", "Rename") {
				has = true
			}
			// a helper that only aofshrink calls and that performs the rename
			if f != nil && helpers[f] && f != fn.Obj {
				if hi := c.FuncOf(f); hi != nil {
					ast.Inspect(hi.Decl.Body, func(y ast.Node) bool {
						if cc, ok := y.(*ast.CallExpr); ok && isFunc(callee(hi.Info(), cc), "os", "Rename") {
							has = true
						}
						return true
					})
				}
			}
			return true
		})
		if has {
			best = lit
		}
		return true
	})
	return fn, best
}

func ruleSwapOrder(c *Ctx) {
	fn, lit := finalShrinkLit(c)
	if fn == nil || lit == nil {
		c.bad("final-step", 0, "aofshrink or its final step (the literal that renames the shrink file) not found")
		return
	}
	info := fn.Info()
	aof := c.Field("internal/server", "Server", "aof")
	aofsz := c.Field("internal/server", "Server", "aofsz")
	shrinklog := c.Field("internal/server", "Server", "shrinklog")
	afn := c.Field("internal/server", "Options", "AppendFileName")
	helpers := c.calledOnlyFrom("aofshrink")
	fg := newXFlow(c, info, lit.Body, func(f *types.Func) bool { return helpers[f] && f != fn.Obj })
	// the function body that contains a node (for resolving single-definition locals such as livePath)
	bodyOf := func(n ast.Node) ast.Node {
		for f := range helpers {
			if fi := c.FuncOf(f); fi != nil && fi.Decl.Body.Pos() <= n.Pos() && n.End() <= fi.Decl.Body.End() {
				return fi.Decl.Body
			}
		}
		return fn.Decl.Body
	}
	isFileMethod := func(f *types.Func, name string) bool { return isMethod(f, "os", "File", name) }
	onAOF := func(call *ast.CallExpr) bool {
		se, ok := ast.Unparen(call.Fun).(*ast.SelectorExpr)
		return ok && selField(info, se.X) == aof
	}
	find1 := func(desc string, pred func(n ast.Node) bool) XLoc {
		ls := fg.Find(pred)
		if len(ls) == 0 {
			return XLoc{}
		}
		return ls[0]
	}
	callPred := func(p func(f *types.Func, call *ast.CallExpr) bool) func(n ast.Node) bool {
		return func(n ast.Node) bool {
			call, ok := n.(*ast.CallExpr)
			return ok && p(callee(info, call), call)
		}
	}
	mentions := func(e ast.Expr, fld *types.Var) bool {
		hit := false
		ast.Inspect(e, func(x ast.Node) bool {
			if se, ok := x.(*ast.SelectorExpr); ok && selField(info, se) == fld {
				hit = true
			}
			return true
		})
		return hit
	}
	isShrinkPath := func(e ast.Expr) bool {
		e = resolveLocal(info, bodyOf(e), e)
		be, ok := ast.Unparen(e).(*ast.BinaryExpr)
		if !ok || be.Op != token.ADD {
			return false
		}
		s, ok := constString(info, be.Y)
		return ok && s == "-shrink" && mentions(resolveLocal(info, bodyOf(e), be.X), afn)
	}
	isLivePath := func(e ast.Expr) bool { return selField(info, resolveLocal(info, bodyOf(e), e)) == afn }

	type step struct {
		name string
		loc  XLoc
	}
	steps := []step{
		{"Lock", find1("lock", callPred(func(f *types.Func, call *ast.CallExpr) bool { return c.serverMuOp(info, call) == lkLock }))},
		{"flushAOF", find1("flush", callPred(func(f *types.Func, call *ast.CallExpr) bool { return isFlushAOF(f) }))},
		{"read-shrinklog", find1("shrinklog", func(n ast.Node) bool { se, ok := n.(*ast.SelectorExpr); return ok && selField(info, se) == shrinklog })},
		{"write-new-file", find1("write", callPred(func(f *types.Func, call *ast.CallExpr) bool { return isFileMethod(f, "Write") && !onAOF(call) }))},
		{"sync-new-file", find1("sync", callPred(func(f *types.Func, call *ast.CallExpr) bool { return isFileMethod(f, "Sync") && !onAOF(call) }))},
		{"close-live", find1("close", callPred(func(f *types.Func, call *ast.CallExpr) bool { return isFileMethod(f, "Close") && onAOF(call) }))},
		{"close-new", find1("close2", callPred(func(f *types.Func, call *ast.CallExpr) bool {
			return isFileMethod(f, "Close") && !onAOF(call) && call.Pos() > lit.Pos()
		}))},
		{"rename-shrink-to-live", find1("rename", callPred(func(f *types.Func, call *ast.CallExpr) bool {
			return isFunc(f, "os", "Rename") && len(call.Args) == 2 && isShrinkPath(call.Args[0]) && isLivePath(call.Args[1])
		}))},
		{"reopen-live", find1("open", callPred(func(f *types.Func, call *ast.CallExpr) bool {
			return isFunc(f, "os", "OpenFile") && len(call.Args) >= 1 && isLivePath(call.Args[0])
		}))},
		{"seek-end", find1("seek", callPred(func(f *types.Func, call *ast.CallExpr) bool { return isFileMethod(f, "Seek") && onAOF(call) }))},
		{"store-aofsz", find1("aofsz", func(n ast.Node) bool {
			as, ok := n.(*ast.AssignStmt)
			return ok && len(as.Lhs) == 1 && selField(info, as.Lhs[0]) == aofsz
		})},
	}
	// close-new: the close of f that follows the final sync; several Close calls on f may exist (conn loop): take the one after sync
	for i := range steps {
		if steps[i].name == "close-new" {
			var syncLoc XLoc
			for _, s := range steps {
				if s.name == "sync-new-file" {
					syncLoc = s.loc
				}
			}
			for _, l := range fg.Find(callPred(func(f *types.Func, call *ast.CallExpr) bool { return isFileMethod(f, "Close") && !onAOF(call) })) {
				if syncLoc.Valid() && fg.Dominates(syncLoc, l) {
					steps[i].loc = l
					break
				}
			}
		}
	}
	prev := -1
	for i, s := range steps {
		if !s.loc.Valid() {
			c.bad("step/"+s.name, lit.Pos(), "step %q not found in the final step of aofshrink", s.name)
			continue
		}
		if prev >= 0 {
			c.check(fg.Dominates(steps[prev].loc, s.loc), "order/"+steps[prev].name+"→"+s.name, s.loc.Pos(),
				steps[prev].name+" dominates "+s.name, s.name+" can execute without "+steps[prev].name+" having executed first")
		}
		prev = i
	}
	// no explicit release inside the final step
	rels := fg.Find(func(n ast.Node) bool {
		call, ok := n.(*ast.CallExpr)
		if !ok {
			return false
		}
		if _, isDefer := c.Parent(call).(*ast.DeferStmt); isDefer {
			return false
		}
		k := c.serverMuOp(info, call)
		return k == lkUnlock || k == lkRUnlock
	})
	c.check(len(rels) == 0, "one-critical-section", lit.Pos(), "no explicit release of Server.mu inside the final step", "Server.mu is released inside the final step: writes can slip between the shrink-log copy and the swap")
	// errors of write/sync are returned before the swap: the rename must not be reachable from the error edges
	// shrinking flag: true store before the snapshot; false store only in a deferred literal
	shrinking := c.Field("internal/server", "Server", "shrinking")
	var trues, falses []*ast.AssignStmt
	ast.Inspect(fn.Decl.Body, func(n ast.Node) bool {
		as, ok := n.(*ast.AssignStmt)
		if !ok || len(as.Lhs) != 1 || len(as.Rhs) != 1 || selField(info, as.Lhs[0]) != shrinking {
			return true
		}
		if boolConst(info, as.Rhs[0]) == '1' {
			trues = append(trues, as)
		} else {
			falses = append(falses, as)
		}
		return true
	})
	outer := newFlowGraph(info, fn.Decl.Body)
	okTrue := len(trues) == 1
	if okTrue {
		tl := outer.LocOf(trues[0])
		creates := outer.Find(func(n ast.Node) bool {
			call, ok := n.(*ast.CallExpr)
			if !ok {
				return false
			}
			lit, isLit := ast.Unparen(call.Fun).(*ast.FuncLit)
			if !isLit {
				return false
			}
			has := false
			ast.Inspect(lit.Body, func(x ast.Node) bool {
				if cc, ok := x.(*ast.CallExpr); ok && (isFunc(callee(info, cc), "os", "Create") || isFunc(callee(info, cc), "os", "OpenFile")) && len(cc.Args) >= 1 && isShrinkPath(cc.Args[0]) {
					has = true
				}
				return true
			})
			return has
		})
		okTrue = tl.Valid() && len(creates) > 0 && outer.Dominates(tl, creates[0])
	}
	// the rewrite starts from an empty file: whatever an interrupted earlier shrink left under the same name is
	// cut off (os.Create, OpenFile with O_TRUNC, or a Truncate(0) / Remove before the first write)
	{
		var opens []*ast.CallExpr
		truncated := false
		ast.Inspect(fn.Decl.Body, func(x ast.Node) bool {
			cc, ok := x.(*ast.CallExpr)
			if !ok {
				return true
			}
			f := callee(info, cc)
			switch {
			case isFunc(f, "os", "Create") && len(cc.Args) == 1 && isShrinkPath(cc.Args[0]):
				opens = append(opens, cc)
				truncated = true
			case isFunc(f, "os", "OpenFile") && len(cc.Args) == 3 && isShrinkPath(cc.Args[0]):
				opens = append(opens, cc)
				if tv, ok := info.Types[cc.Args[1]]; ok && tv.Value != nil {
					if flags, exact := constant.Int64Val(constant.ToInt(tv.Value)); exact {
						for _, imp := range fn.Pkg.Types.Imports() {
							if imp.Path() == "os" {
								if k, ok := imp.Scope().Lookup("O_TRUNC").(*types.Const); ok {
									if tr, exact := constant.Int64Val(constant.ToInt(k.Val())); exact && flags&tr != 0 {
										truncated = true
									}
								}
							}
						}
					}
				}
			case (isFunc(f, "os", "Remove") || isFunc(f, "os", "Truncate")) && len(cc.Args) >= 1 && isShrinkPath(cc.Args[0]):
				truncated = true
			}
			return true
		})
		switch {
		case len(opens) == 0:
			c.und("new-file-starts-empty", fn.Decl.Pos(), "the open of the rewrite file (<log>-shrink) was not found")
		default:
			c.check(truncated, "new-file-starts-empty", opens[0].Pos(), "the rewrite file is created empty (os.Create / O_TRUNC / removed first)", "the rewrite file is opened without truncation: if an interrupted earlier shrink left a longer file under that name, its tail stays behind the new content and becomes part of the live log at the rename")
		}
	}
	c.check(okTrue, "shrinking-set-before-snapshot", fn.Decl.Pos(), "shrinking = true dominates the start of the snapshot", "the snapshot can start before shrinking is set: writes during the snapshot are not captured")
	okFalse := len(falses) >= 1
	for _, f := range falses {
		inDefer := false
		var p ast.Node = f
		for p != nil {
			if lit, ok := p.(*ast.FuncLit); ok {
				if call, ok := c.Parent(lit).(*ast.CallExpr); ok {
					if _, ok := c.Parent(call).(*ast.DeferStmt); ok {
						inDefer = true
					}
				}
			}
			p = c.Parent(p)
		}
		if !inDefer {
			okFalse = false
		}
	}
	c.check(okFalse, "shrinking-cleared-in-epilogue", fn.Decl.Pos(), "shrinking is cleared only in the deferred epilogue", "shrinking is cleared outside the deferred epilogue: capture can stop before the swap")
	// the epilogue belongs to the invocation that set the flag: the defer that clears it is registered after
	// (dominated by) the store of true, so an invocation that bails out at the 'already shrinking' guard
	// does not clear the flag and the shrink log of the rewrite that is running
	owned := len(trues) == 1
	if owned {
		tl := outer.LocOf(trues[0])
		for _, d := range outer.Find(func(n ast.Node) bool { _, ok := n.(*ast.DeferStmt); return ok }) {
			ds := d.Node.(*ast.DeferStmt)
			clears := false
			ast.Inspect(ds, func(x ast.Node) bool {
				if as, ok := x.(*ast.AssignStmt); ok && len(as.Lhs) == 1 && selField(info, as.Lhs[0]) == shrinking {
					clears = true
				}
				return true
			})
			if clears && !(tl.Valid() && outer.Dominates(tl, d)) {
				owned = false
			}
		}
	}
	c.check(owned, "shrinking-cleared-by-owner", fn.Decl.Pos(), "the clearing epilogue is registered only after this invocation set shrinking", "the epilogue that clears shrinking/shrinklog is pending on paths that did not set the flag (the 'already shrinking' early return): a second AOFSHRINK ends the capture of the running one and writes acknowledged during it are missing after restart")
}

func ruleLiveNeverAbsent(c *Ctx) {
	afn := c.Field("internal/server", "Options", "AppendFileName")
	aof := c.Field("internal/server", "Server", "aof")
	n := 0
	for _, fn := range c.AllFuncs("internal/server") {
		info := fn.Info()
		isLive := func(e ast.Expr) bool {
			e = ast.Unparen(e)
			if selField(info, e) == afn {
				return true
			}
			// s.aof.Name()
			if call, ok := e.(*ast.CallExpr); ok {
				if se, ok := ast.Unparen(call.Fun).(*ast.SelectorExpr); ok && se.Sel.Name == "Name" && selField(info, se.X) == aof {
					return true
				}
			}
			return false
		}
		ast.Inspect(fn.Decl.Body, func(x ast.Node) bool {
			call, ok := x.(*ast.CallExpr)
			if !ok {
				return true
			}
			f := callee(info, call)
			switch {
			case isFunc(f, "os", "Rename") && len(call.Args) == 2:
				n++
				key := funcName(fn.Obj) + "→os.Rename(" + exprStr(call.Args[0]) + ", " + exprStr(call.Args[1]) + ")"
				if isLive(call.Args[0]) {
					c.bad(key, call.Pos(), "the live log file is renamed away: until the replacement is in place the data directory has no %s; a crash here makes start-up create an empty log", "appendonly.aof")
				} else {
					c.ok(key, call.Pos(), true, "source is not the live log path")
				}
			case (isFunc(f, "os", "Remove") || isFunc(f, "os", "RemoveAll")) && len(call.Args) == 1:
				n++
				key := funcName(fn.Obj) + "→os.Remove(" + exprStr(call.Args[0]) + ")"
				if isLive(call.Args[0]) {
					c.bad(key, call.Pos(), "the live log file is removed")
				} else {
					c.ok(key, call.Pos(), true, "argument is not the live log path")
				}
			}
			return true
		})
	}
	if n == 0 {
		c.bad("no-sites", 0, "no os.Rename/os.Remove call found in the server (the shrink swap must exist)")
	}
}

// optionSwitchLabels: case labels of switches whose tag is strings.ToLower(<x>) (or a variable assigned from it) in fn.
func optionSwitchLabels(fn *FuncInfo) map[string]bool {
	info := fn.Info()
	out := map[string]bool{}
	ast.Inspect(fn.Decl.Body, func(n ast.Node) bool {
		sw, ok := n.(*ast.SwitchStmt)
		if !ok || sw.Tag == nil {
			return true
		}
		if tv, ok := info.Types[sw.Tag]; !ok || !types.Identical(tv.Type.Underlying(), types.Typ[types.String]) {
			return true
		}
		for _, cc := range sw.Body.List {
			for _, e := range cc.(*ast.CaseClause).List {
				if s, ok := constString(info, e); ok {
					out[s] = true
				}
			}
		}
		return true
	})
	return out
}

func ruleOptionsAgree(c *Ctx) {
	fn := c.Func("internal/server", "Server", "aofshrink")
	set := c.Func("internal/server", "Server", "cmdSET")
	sethook := c.Func("internal/server", "Server", "cmdSetHook")
	if fn == nil || set == nil || sethook == nil {
		c.und("anchors", 0, "aofshrink, cmdSET or cmdSetHook not found")
		return
	}
	info := fn.Info()
	setLabels := optionSwitchLabels(set)
	hookLabels := optionSwitchLabels(sethook)
	// emitters: literals of aofshrink grouped by the command name they emit
	cmdNames := map[string]bool{"set": true, "sethook": true, "setchan": true}
	hasCmdName := func(n ast.Node) bool {
		hit := false
		ast.Inspect(n, func(x ast.Node) bool {
			if e, ok := x.(ast.Expr); ok {
				if s, ok := constString(info, e); ok && cmdNames[s] {
					hit = true
				}
			}
			return !hit
		})
		return hit
	}
	ast.Inspect(fn.Decl.Body, func(n ast.Node) bool {
		lit, ok := n.(*ast.FuncLit)
		if !ok || !hasCmdName(lit.Body) {
			return true
		}
		// the emitter is the innermost literal that (deeply) contains a command name
		inner := false
		ast.Inspect(lit.Body, func(x ast.Node) bool {
			if l2, ok := x.(*ast.FuncLit); ok && hasCmdName(l2.Body) {
				inner = true
			}
			return !inner
		})
		if inner {
			return true
		}
		var words []string
		var pos []token.Pos
		ast.Inspect(lit.Body, func(x ast.Node) bool {
			call, ok := x.(*ast.CallExpr)
			if !ok {
				return true
			}
			id, ok := ast.Unparen(call.Fun).(*ast.Ident)
			if !ok || id.Name != "append" {
				return true
			}
			if _, isB := info.Uses[id].(*types.Builtin); !isB {
				return true
			}
			// appends to a []string
			if tv, ok := info.Types[call]; !ok || tv.Type.String() != "[]string" {
				return true
			}
			for _, a := range call.Args[1:] {
				if s, ok := constString(info, a); ok {
					words = append(words, s)
					pos = append(pos, a.Pos())
				}
			}
			return true
		})
		if len(words) == 0 {
			return true
		}
		kind := ""
		for _, w := range words {
			switch w {
			case "set":
				kind = "object"
			case "sethook", "setchan":
				kind = "hook"
			}
		}
		if kind == "" {
			return true
		}
		labels, reader := setLabels, "cmdSET"
		if kind == "hook" {
			labels, reader = hookLabels, "cmdSetHook"
		}
		for i, w := range words {
			if w == "set" || w == "sethook" || w == "setchan" {
				continue // command names: R3.vocabulary
			}
			c.check(labels[w], kind+"-emitter/"+w, pos[i], "option word is a case label of "+reader, fmt.Sprintf("aofshrink emits option %q which %s does not parse: the rewritten log cannot be replayed", w, reader))
		}
		return true
	})
}

func ruleResumeCursor(c *Ctx) {
	fn := c.Func("internal/server", "Server", "aofshrink")
	if fn == nil {
		c.und("anchors", 0, "aofshrink not found")
		return
	}
	info := fn.Info()
	// cursor variables: string variables assigned inside an iterator literal and passed as the first
	// argument to the scan call that takes that literal
	type site struct {
		scan   *ast.CallExpr
		iter   *ast.FuncLit
		cursor types.Object
	}
	var sites []site
	ast.Inspect(fn.Decl.Body, func(n ast.Node) bool {
		call, ok := n.(*ast.CallExpr)
		if !ok || len(call.Args) < 2 {
			return true
		}
		se, ok := ast.Unparen(call.Fun).(*ast.SelectorExpr)
		if !ok || (se.Sel.Name != "Ascend" && se.Sel.Name != "ScanGreaterOrEqual") {
			return true
		}
		id, ok := ast.Unparen(call.Args[0]).(*ast.Ident)
		if !ok {
			return true
		}
		lit, ok := ast.Unparen(call.Args[len(call.Args)-1]).(*ast.FuncLit)
		if !ok {
			return true
		}
		sites = append(sites, site{call, lit, info.ObjectOf(id)})
		return true
	})
	sort.Slice(sites, func(i, j int) bool { return sites[i].scan.Pos() < sites[j].scan.Pos() })
	// a resume cursor is a key, never a position: between two batches the lock is released and other
	// connections insert and remove entries, so the k-th entry of a guarded container is a different entry
	// in the next critical section
	guarded := c.muData().guarded
	nPos := 0
	ast.Inspect(fn.Decl.Body, func(n ast.Node) bool {
		call, ok := n.(*ast.CallExpr)
		if !ok || len(call.Args) < 1 {
			return true
		}
		se, ok := ast.Unparen(call.Fun).(*ast.SelectorExpr)
		if !ok || !(se.Sel.Name == "GetAt" || se.Sel.Name == "DeleteAt") {
			return true
		}
		fv := selField(info, se.X)
		if fv == nil || guarded[fv] == "" {
			return true
		}
		nPos++
		key := "positional/" + guarded[fv] + "." + se.Sel.Name
		carried := false
		ast.Inspect(call.Args[0], func(m ast.Node) bool {
			id, ok := m.(*ast.Ident)
			if !ok {
				return true
			}
			v, ok := info.ObjectOf(id).(*types.Var)
			if !ok || v.IsField() {
				return true
			}
			if lit := enclosingFuncLit(c.Program, call); lit != nil && !(lit.Pos() <= v.Pos() && v.Pos() < lit.End()) {
				carried = true // declared outside the literal that holds the lock: it survives the critical section
			}
			return true
		})
		if carried {
			c.bad(key, call.Pos(), "%s is addressed by a position (%s) that is kept from one critical section of the rewrite to the next: entries inserted or removed by other connections in between shift the positions, so the scan skips or repeats a collection and the rewritten log loses or duplicates it", guarded[fv], exprStr(call.Args[0]))
		} else {
			c.ok(key, call.Pos(), true, "positional access with an index that lives inside one critical section")
		}
		return true
	})
	c.stat("positional_accesses_in_rewrite", nPos)
	if len(sites) < 2 {
		c.bad("iterators", fn.Decl.Pos(), "expected two batch iterators with a resume cursor in aofshrink, found %d", len(sites))
	}
	for _, s := range sites {
		key := "cursor/" + s.cursor.Name()
		fg := newFlowGraph(info, s.iter.Body)
		stores := fg.Find(func(n ast.Node) bool {
			as, ok := n.(*ast.AssignStmt)
			if !ok {
				return false
			}
			for _, l := range as.Lhs {
				if id, ok := l.(*ast.Ident); ok && info.ObjectOf(id) == s.cursor {
					return true
				}
			}
			return false
		})
		if len(stores) == 0 {
			c.bad(key, s.scan.Pos(), "the iterator never stores its resume cursor %s", s.cursor.Name())
			continue
		}
		ok := true
		why := ""
		for _, st := range stores {
			// every path from the store reaches `return false` without an emission (append)
			reachTrue, _ := fg.Reach(PathQuery{From: st, Target: func(l Loc) bool {
				r, isRet := l.Node.(*ast.ReturnStmt)
				return isRet && len(r.Results) == 1 && boolConst(info, r.Results[0]) != '0'
			}})
			if reachTrue {
				ok, why = false, "the cursor is stored on a path that continues the scan"
			}
			// no emission between entry and the store on the stop path: the store must not be dominated by an append
			emits := fg.Find(func(n ast.Node) bool {
				call, isCall := n.(*ast.CallExpr)
				if !isCall {
					return false
				}
				id, isId := ast.Unparen(call.Fun).(*ast.Ident)
				return isId && id.Name == "append"
			})
			for _, e := range emits {
				if fg.Dominates(e, st) {
					ok, why = false, "the element is emitted before the cursor is stored for it: it would be written twice"
				}
				if r, _ := fg.Reach(PathQuery{From: st, Target: func(l Loc) bool { return l.Block == e.Block && l.Idx == e.Idx }}); r {
					ok, why = false, "an emission is reachable after the cursor store"
				}
			}
		}
		if ok {
			c.ok(key, s.scan.Pos(), true, "stored only on the stopping path before any emission; passed to the inclusive scan %s", exprStr(s.scan.Fun))
		} else {
			c.bad(key, s.scan.Pos(), "%s", why)
		}
	}
	_ = strings.Join
}

func init() {
	register(&Rule{ID: "R9.emit-covers-state", Props: []string{"C09", "C14"}, Floor: 9,
		Text: "the rewrite emits every component of the state it replaces, under exactly the guard that component has: in aofshrink, the option words appended to a command ('field' under !field.Value().IsZero() only, 'ex' under object.Expires() != 0 only, 'object'/'string' on the two edges of objIsSpatial(object.Geo()), 'setchan'/'sethook' on the two edges of hook.channel, 'meta' for every element of hook.Metas, 'ex' under !hook.expires.IsZero() only; guards compared with locals rendered by their type, not their name) carry no other condition on the object, field or hook, the object command reads ID, Fields, Expires and Geo of the object, and the hook command appends the hook's stored message arguments unconditionally",
		Run:  ruleEmitCoversState})
}

func ruleEmitCoversState(c *Ctx) {
	fn := c.Func("internal/server", "Server", "aofshrink")
	if fn == nil {
		c.und("anchors", 0, "aofshrink not found")
		return
	}
	info := fn.Info()
	// every append(values, "lit", ...) with its innermost enclosing literal and the facts dominating it inside that literal
	type emit struct {
		word  string
		lit   *ast.FuncLit
		facts []string
		pos   token.Pos
		call  *ast.CallExpr
	}
	var emits []emit
	graphs := map[*ast.FuncLit]*FlowGraph{}
	var lits []*ast.FuncLit
	ast.Inspect(fn.Decl.Body, func(n ast.Node) bool {
		if l, ok := n.(*ast.FuncLit); ok {
			lits = append(lits, l)
		}
		return true
	})
	innermost := func(n ast.Node) *ast.FuncLit {
		var best *ast.FuncLit
		for _, l := range lits {
			if l.Body.Pos() <= n.Pos() && n.End() <= l.Body.End() {
				if best == nil || l.Body.Pos() >= best.Body.Pos() {
					best = l
				}
			}
		}
		return best
	}
	ast.Inspect(fn.Decl.Body, func(n ast.Node) bool {
		call, ok := n.(*ast.CallExpr)
		if !ok || len(call.Args) < 2 {
			return true
		}
		if id, ok := ast.Unparen(call.Fun).(*ast.Ident); !ok || id.Name != "append" {
			return true
		}
		w, ok := constString(info, call.Args[1])
		if !ok {
			return true
		}
		if t, ok := info.TypeOf(call.Args[0]).Underlying().(*types.Slice); !ok || t.Elem().String() != "string" {
			return true
		}
		l := innermost(call)
		if l == nil {
			return true
		}
		fg := graphs[l]
		if fg == nil {
			fg = newFlowGraph(info, l.Body)
			graphs[l] = fg
		}
		loc := fg.LocOf(call)
		var facts []string
		canonBody = l.Body
		defer func() { canonBody = nil }()
		// conditions that are about the thing being emitted mention it: the parameters of the enclosing
		// callbacks (the object, the field) or a local of hook/object/field type; a condition on other
		// locals only (the batch counter against the batch size) is not a filter on the emitted state
		subject := func(e ast.Expr) bool { return mentionsSubject(info, e, derivedFromSubject(info, l)) }
		if loc.Valid() {
			for _, f := range fg.DominatingFacts(loc) {
				if !subject(f.E) && f.Tag == nil {
					continue
				}
				s := canonStr(info, f.E)
				if f.Tag != nil {
					s = canonStr(info, f.Tag) + "==" + s
				}
				if f.Neg {
					s = "!(" + s + ")"
				}
				facts = append(facts, s)
			}
		}
		sort.Strings(facts)
		emits = append(emits, emit{w, l, facts, call.Pos(), call})
		return true
	})
	// expected guards: the first parameter of the object callback is o, of the field callback f; hooks use `hook`
	type want struct {
		word   string
		hook   bool
		guards func(facts []string) (ok bool, why string)
	}
	only := func(allowed ...string) func([]string) (bool, string) {
		return func(facts []string) (bool, string) {
			need := map[string]bool{}
			for _, a := range allowed {
				need[a] = false
			}
			for _, f := range facts {
				if _, ok := need[f]; ok {
					need[f] = true
					continue
				}
				// existence of the thing being emitted (the hook was deleted meanwhile) is not a filter on its state
				if strings.HasSuffix(f, " == nil)") && strings.HasPrefix(f, "!(") || strings.HasSuffix(f, " != nil") {
					continue
				}
				return false, "extra condition " + f
			}
			for a, seen := range need {
				if !seen {
					return false, "missing condition " + a
				}
			}
			return true, ""
		}
	}
	isHookLit := func(l *ast.FuncLit) bool {
		hit := false
		ast.Inspect(l.Body, func(n ast.Node) bool {
			if se, ok := n.(*ast.SelectorExpr); ok && se.Sel.Name == "Metas" {
				hit = true
			}
			return true
		})
		return hit
	}
	wants := []want{
		{"set", false, only()},
		{"field", false, only("!(‹Field›.Value().IsZero())")},
		{"ex", false, only("‹Object›.Expires() != 0")},
		{"object", false, only("objIsSpatial(‹Object›.Geo())")},
		{"string", false, only("!(objIsSpatial(‹Object›.Geo()))")},
		{"setchan", true, only("‹Hook›.channel")},
		{"sethook", true, only("!(‹Hook›.channel)")},
		{"meta", true, only()},
		{"ex", true, only("!(‹Hook›.expires.IsZero())")},
	}
	for _, w := range wants {
		key := "object/" + w.word
		if w.hook {
			key = "hook/" + w.word
		}
		var found *emit
		for i := range emits {
			if emits[i].word == w.word && isHookLit(emits[i].lit) == w.hook {
				found = &emits[i]
			}
		}
		if found == nil {
			c.bad(key, fn.Decl.Pos(), "the rewrite never emits %q for %s: that part of the state is lost by AOFSHRINK", w.word, map[bool]string{true: "hooks/channels", false: "objects"}[w.hook])
			continue
		}
		if ok, why := w.guards(found.facts); ok {
			c.ok(key, found.pos, true, "%q is emitted under exactly %v", w.word, found.facts)
		} else {
			c.bad(key, found.pos, "%q is emitted under %v (%s): some objects or hooks lose this part of their state in the rewritten log, or get one they did not have", w.word, found.facts, why)
		}
	}
	// the value of a field is emitted in the form the command parser reads the same kind back from: the
	// parser (field.ValueOf) decides the kind from the text — 90210 is a number, true a boolean, {"a":1} a
	// document — so a string must arrive quoted, which is what Value.JSON() produces and Value.Data() does not
	for i := range emits {
		e := &emits[i]
		if e.word != "field" || isHookLit(e.lit) {
			continue
		}
		// the appends to the same slice that follow in the same block: name, value
		var stmts []ast.Stmt
		var self ast.Node = e.call
		for p := c.Parent(e.call); p != nil; p = c.Parent(p) {
			if blk, ok := p.(*ast.BlockStmt); ok {
				stmts = blk.List
				break
			}
			self = p
		}
		var operands []ast.Expr
		after := false
		for _, st := range stmts {
			if st == self {
				after = true
				// operands appended by the same call: append(values, "field", name, value)
				operands = append(operands, e.call.Args[2:]...)
				continue
			}
			if !after {
				continue
			}
			as, ok := st.(*ast.AssignStmt)
			if !ok || len(as.Rhs) != 1 {
				break
			}
			call, ok := ast.Unparen(as.Rhs[0]).(*ast.CallExpr)
			if !ok {
				break
			}
			if id, ok := ast.Unparen(call.Fun).(*ast.Ident); !ok || id.Name != "append" || len(call.Args) < 2 || exprStr(call.Args[0]) != exprStr(e.call.Args[0]) {
				break
			}
			operands = append(operands, call.Args[1:]...)
		}
		okForm := false
		what := "no value operand found"
		if len(operands) >= 2 {
			v := resolveLocal(info, e.lit.Body, operands[1])
			what = exprStr(v)
			if call, ok := ast.Unparen(v).(*ast.CallExpr); ok {
				if f := callee(info, call); f != nil && isMethod(f, modPath+"/internal/field", "Value", "JSON") {
					okForm = true
				}
			}
		}
		c.check(okForm, "object/field-value-form", e.pos, "the field value is emitted as Value.JSON()", "the field value is emitted as "+what+", not in its JSON form: the command parser decides the kind of a field from its text, so a string field whose text looks like a number, a boolean, a document or a quoted string comes back as another kind (or another text) after a restart on the rewritten log")
	}
	// accessors read by the object command; 'meta' inside a range over hook.Metas; message arguments appended
	var objLit *ast.FuncLit
	for _, e := range emits {
		if e.word == "set" && !isHookLit(e.lit) {
			objLit = e.lit
		}
	}
	if objLit != nil {
		have := map[string]bool{}
		ast.Inspect(objLit.Body, func(n ast.Node) bool {
			if call, ok := n.(*ast.CallExpr); ok {
				if f := callee(info, call); f != nil && isMethod(f, modPath+"/internal/object", "Object", f.Name()) {
					have[f.Name()] = true
				}
			}
			return true
		})
		var missing []string
		for _, m := range []string{"ID", "Fields", "Expires", "Geo"} {
			if !have[m] {
				missing = append(missing, m)
			}
		}
		// every object the scan visits is rewritten: no path of the callback goes on to the next object
		// (returns true) without having emitted the command
		var setCall *ast.CallExpr
		for _, e := range emits {
			if e.word == "set" && e.lit == objLit {
				setCall = e.call
			}
		}
		if fgo := graphs[objLit]; fgo != nil && setCall != nil {
			skip, w := fgo.Reach(PathQuery{
				Target: func(l Loc) bool {
					r, ok := l.Node.(*ast.ReturnStmt)
					return ok && len(r.Results) == 1 && boolConst(info, r.Results[0]) != '0'
				},
				Avoid: func(l Loc) bool { return containsNode(l.Block.Nodes[l.Idx], setCall) },
			})
			c.checkPath(!skip, "object/every-visited-object-emitted", objLit.Pos(), w,
				"the callback goes on to the next object only after it has emitted the command for this one",
				"the object callback can go on to the next object without having emitted a command for the current one: that object is missing from the rewritten log although it is still stored (an object skipped because it is about to expire is lost if its deadline is moved before the sweep: the captured EXPIRE/PERSIST finds nothing to act on at the next start)")
		}
		c.check(len(missing) == 0, "object/reads-all-components", objLit.Pos(), "the object command reads ID, Fields, Expires and Geo", fmt.Sprintf("the object command does not read %v of the object", missing))
	} else {
		c.und("object/reads-all-components", fn.Decl.Pos(), "object emission closure not found")
	}
	metaInRange, argsAppended := false, false
	for _, e := range emits {
		if e.word == "meta" {
			for p := c.Parent(e.call); p != nil && p != ast.Node(e.lit); p = c.Parent(p) {
				if rs, ok := p.(*ast.RangeStmt); ok {
					if se, ok := ast.Unparen(rs.X).(*ast.SelectorExpr); ok && se.Sel.Name == "Metas" {
						metaInRange = true
					}
				}
			}
		}
	}
	ast.Inspect(fn.Decl.Body, func(n ast.Node) bool {
		call, ok := n.(*ast.CallExpr)
		if !ok || !call.Ellipsis.IsValid() || len(call.Args) != 2 {
			return true
		}
		if id, ok := ast.Unparen(call.Fun).(*ast.Ident); !ok || id.Name != "append" {
			return true
		}
		if se, ok := ast.Unparen(call.Args[1]).(*ast.SelectorExpr); ok && se.Sel.Name == "Args" {
			l := innermost(call)
			if l != nil && isHookLit(l) {
				fg := graphs[l]
				if fg == nil {
					fg = newFlowGraph(info, l.Body)
				}
				extra := false
				for _, f := range fg.DominatingFacts(fg.LocOf(call)) {
					if s := canonStr(info, f.E); !(f.Neg && s == "‹Hook› == nil") {
						extra = true
					}
				}
				if !extra {
					argsAppended = true
				}
			}
		}
		return true
	})
	c.check(metaInRange, "hook/meta-for-every-element", fn.Decl.Pos(), "'meta' is emitted inside a range over hook.Metas", "'meta' is not emitted for every element of hook.Metas")
	c.check(argsAppended, "hook/message-args", fn.Decl.Pos(), "the hook's stored message arguments are appended unconditionally", "the hook's message arguments (the fence definition) are not appended unconditionally to the rewritten SETHOOK/SETCHAN")
}

func init() {
	register(&Rule{ID: "R9.rewrite-sees-every-collection", Props: []string{"C09"}, Floor: 1,
		Text: "the rewrite walks the keyspace in key order, a batch at a time, and releases the lock between batches; what changes meanwhile reaches the new log only as the commands captured in the shrink log, replayed on top of the snapshot. That is sound for commands that address a collection by the key it keeps. A handler of a logged command that moves an existing collection to another key (stores under one key a collection it read from the keyspace under another) can move it from ahead of the scan to behind it: the snapshot then holds it under neither key and the captured command finds nothing to move. Every such handler therefore runs only while no rewrite is in progress: the store is dominated by a test of Server.shrinking",
		Run:  ruleRewriteSeesEveryCollection})
}

func ruleRewriteSeesEveryCollection(c *Ctx) {
	hs := writeHandlers(c)
	if hs == nil {
		c.und("engine", 0, "write handlers not available")
		return
	}
	cols := c.Field("internal/server", "Server", "cols")
	shrinking := c.Field("internal/server", "Server", "shrinking")
	if cols == nil || shrinking == nil {
		c.und("anchors", 0, "Server.cols or Server.shrinking not found")
		return
	}
	n, scanned := 0, 0
	for _, h := range hs {
		fi := c.FuncOf(h)
		if fi == nil || fi.Decl.Body == nil {
			continue
		}
		scanned++
		info := fi.Info()
		// locals that hold a collection read from the keyspace, with the key expression they were read under
		readKey := map[types.Object]ast.Expr{}
		ast.Inspect(fi.Decl.Body, func(x ast.Node) bool {
			as, ok := x.(*ast.AssignStmt)
			if !ok || len(as.Rhs) != 1 || len(as.Lhs) < 1 {
				return true
			}
			call, ok := ast.Unparen(as.Rhs[0]).(*ast.CallExpr)
			if !ok || len(call.Args) != 1 {
				return true
			}
			se, ok := ast.Unparen(call.Fun).(*ast.SelectorExpr)
			if !ok || se.Sel.Name != "Get" || selField(info, se.X) != cols {
				return true
			}
			if id, ok := ast.Unparen(as.Lhs[0]).(*ast.Ident); ok && id.Name != "_" {
				readKey[info.ObjectOf(id)] = call.Args[0]
			}
			return true
		})
		if len(readKey) == 0 {
			continue
		}
		var fg *FlowGraph
		ast.Inspect(fi.Decl.Body, func(x ast.Node) bool {
			call, ok := x.(*ast.CallExpr)
			if !ok || len(call.Args) != 2 {
				return true
			}
			se, ok := ast.Unparen(call.Fun).(*ast.SelectorExpr)
			if !ok || se.Sel.Name != "Set" || selField(info, se.X) != cols {
				return true
			}
			vid, ok := ast.Unparen(call.Args[1]).(*ast.Ident)
			if !ok {
				return true
			}
			from, ok := readKey[info.ObjectOf(vid)]
			if !ok || sameExpr(info, from, call.Args[0]) {
				return true // created here, or stored back under the key it was read from
			}
			n++
			key := funcName(h) + "→cols.Set(" + exprStr(call.Args[0]) + ", " + vid.Name + ")"
			if fg == nil {
				fg = newFlowGraph(info, fi.Decl.Body)
			}
			gated := false
			if l := fg.LocOfOuter(call); l.Valid() {
				for _, f := range fg.DominatingFacts(l) {
					ast.Inspect(f.E, func(y ast.Node) bool {
						if s, ok := y.(*ast.SelectorExpr); ok && selField(info, s) == shrinking {
							gated = true
						}
						return true
					})
				}
			}
			c.check(gated, key, call.Pos(), "the move is made only under a test of Server.shrinking",
				"the collection read under "+exprStr(from)+" is stored under "+exprStr(call.Args[0])+" whether or not a rewrite is running: moved from a key the batch scan has not reached to one it has passed, it is in neither the snapshot nor (as data) the shrink log, and the captured command is replayed on a snapshot where its source does not exist — the collection is served until the next restart and then gone")
			return true
		})
	}
	c.stat("write_handlers_scanned", scanned)
	c.stat("collection_moves", n)
}

// mentionsSubject: the expression mentions the thing being rewritten — a variable of hook/object/field
// type — or a local computed from one (ttl := f(o.Expires())).
func mentionsSubject(info *types.Info, e ast.Expr, derived map[types.Object]bool) bool {
	hit := false
	ast.Inspect(e, func(n ast.Node) bool {
		id, ok := n.(*ast.Ident)
		if !ok {
			return true
		}
		v, ok := info.ObjectOf(id).(*types.Var)
		if !ok {
			return true
		}
		if derived[v] {
			hit = true
			return true
		}
		t := v.Type().String()
		if strings.HasSuffix(t, "server.Hook") || strings.HasSuffix(t, "object.Object") || strings.HasSuffix(t, "field.Field") || strings.HasSuffix(t, "field.Value") {
			hit = true
		}
		return true
	})
	return hit
}

var derivedSubjectCache = map[*ast.FuncLit]map[types.Object]bool{}

// derivedFromSubject: the locals of the literal that are assigned from an expression that mentions the
// subject (transitively).
func derivedFromSubject(info *types.Info, l *ast.FuncLit) map[types.Object]bool {
	if d, ok := derivedSubjectCache[l]; ok {
		return d
	}
	d := map[types.Object]bool{}
	derivedSubjectCache[l] = d
	for changed := true; changed; {
		changed = false
		ast.Inspect(l.Body, func(n ast.Node) bool {
			mark := func(lhs ast.Expr) {
				if id, ok := ast.Unparen(lhs).(*ast.Ident); ok {
					if o := info.ObjectOf(id); o != nil && !d[o] {
						t := o.Type().String()
						if t == "[]string" || t == "[]byte" { // the output buffers collect everything
							return
						}
						d[o] = true
						changed = true
					}
				}
			}
			switch x := n.(type) {
			case *ast.AssignStmt:
				for i, r := range x.Rhs {
					if mentionsSubject(info, r, d) {
						if len(x.Lhs) == len(x.Rhs) {
							mark(x.Lhs[i])
						} else {
							for _, lh := range x.Lhs {
								mark(lh)
							}
						}
					}
				}
			case *ast.ValueSpec:
				for _, r := range x.Values {
					if mentionsSubject(info, r, d) {
						for _, nm := range x.Names {
							mark(nm)
						}
					}
				}
			}
			return true
		})
	}
	return d
}
