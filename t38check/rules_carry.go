package main

import (
	"go/ast"
	"go/token"
	"go/types"

	"golang.org/x/tools/go/cfg"
)

func init() {
	register(&Rule{ID: "R16.carry-content", Props: []string{"C16", "C04"}, Floor: 2,
		Text: "stream readers that prepend a carry buffer to the next chunk (data = append(carry, data...)): whenever a chunk has been parsed, the carry buffer holds exactly the unparsed remainder before the next read and before every normal return — it was copied from the remainder (carry = append(carry[:0], data...)) or both are known to be empty; must-dataflow on go/cfg with facts {carry ≡ data, carry empty, data empty}",
		Run:  ruleCarryContent})
}

func ruleCarryContent(c *Ctx) {
	n := 0
	for _, fn := range c.AllFuncs("internal/server") {
		info := fn.Info()
		// the prepend statement: D = append(C, D...)
		var dataObj types.Object
		var carry ast.Expr
		inspectNoLit(fn.Decl.Body, func(x ast.Node) bool {
			as, ok := x.(*ast.AssignStmt)
			if !ok || len(as.Lhs) != 1 || len(as.Rhs) != 1 {
				return true
			}
			l, ok := as.Lhs[0].(*ast.Ident)
			if !ok {
				return true
			}
			ap, ok := ast.Unparen(as.Rhs[0]).(*ast.CallExpr)
			if !ok || !ap.Ellipsis.IsValid() || len(ap.Args) != 2 {
				return true
			}
			if id, ok := ast.Unparen(ap.Fun).(*ast.Ident); !ok || id.Name != "append" {
				return true
			}
			a1, ok := ast.Unparen(ap.Args[1]).(*ast.Ident)
			if !ok || info.ObjectOf(a1) != info.ObjectOf(l) {
				return true
			}
			switch ast.Unparen(ap.Args[0]).(type) {
			case *ast.Ident, *ast.SelectorExpr:
				if !sameExpr(info, ap.Args[0], l) {
					dataObj, carry = info.ObjectOf(l), ap.Args[0]
				}
			}
			return true
		})
		if dataObj == nil {
			continue
		}
		// only functions that read a stream and parse commands from it
		fg := newFlowGraph(info, fn.Decl.Body)
		isReadNode := func(nd ast.Node) bool {
			hit := false
			inspectNoLit(nd, func(x ast.Node) bool {
				if call, ok := x.(*ast.CallExpr); ok {
					if se, ok := ast.Unparen(call.Fun).(*ast.SelectorExpr); ok && se.Sel.Name == "Read" && len(call.Args) == 1 {
						hit = true
					}
				}
				return true
			})
			return hit
		}
		isParseNode := func(nd ast.Node) bool {
			hit := false
			inspectNoLit(nd, func(x ast.Node) bool {
				if call, ok := x.(*ast.CallExpr); ok {
					for _, a := range call.Args {
						if id, ok := ast.Unparen(a).(*ast.Ident); ok && info.ObjectOf(id) == dataObj {
							if f := callee(info, call); f != nil && (f.Name() == "ReadNextCommand" || f.Name() == "readNextCommand") {
								hit = true
							}
						}
					}
				}
				return true
			})
			return hit
		}
		hasRead, hasParse := false, false
		for _, b := range fg.G.Blocks {
			for _, nd := range b.Nodes {
				hasRead = hasRead || isReadNode(nd)
				hasParse = hasParse || isParseNode(nd)
			}
		}
		if !hasRead || !hasParse {
			continue
		}
		n++
		key := funcName(fn.Obj) + "/" + exprStr(carry)
		isCarry := func(e ast.Expr) bool { return sameExpr(info, e, carry) }
		isData := func(e ast.Expr) bool {
			id, ok := ast.Unparen(e).(*ast.Ident)
			return ok && info.ObjectOf(id) == dataObj
		}
		// state bits
		const (
			fE      = 1 << iota // carry ≡ data (must)
			fEmptyC             // carry empty (must)
			fEmptyD             // data empty (must)
		)
		// the state keeps two worlds apart: no parse since the last read (np) and a parse since the last
		// read (p); each is a must-set or absent (-1)
		type st struct{ np, p int }
		derive := func(m int) int {
			if m >= 0 && m&fEmptyC != 0 && m&fEmptyD != 0 {
				m |= fE
			}
			return m
		}
		meet := func(a, b int) int {
			switch {
			case a < 0:
				return b
			case b < 0:
				return a
			}
			return a & b
		}
		var problem string
		var at token.Pos
		both := func(s st, f func(m int) int) st {
			if s.np >= 0 {
				s.np = derive(f(s.np))
			}
			if s.p >= 0 {
				s.p = derive(f(s.p))
			}
			return s
		}
		transfer := func(s st, nd ast.Node) st {
			if isReadNode(nd) {
				if s.p >= 0 && s.p&fE == 0 && problem == "" {
					problem, at = "the next chunk is read", nd.Pos()
				}
				s.np, s.p = meet(s.np, s.p), -1
			}
			if r, ok := nd.(*ast.ReturnStmt); ok {
				if !definiteErrorReturn(fg, info, fn, r) && s.p >= 0 && s.p&fE == 0 && problem == "" {
					problem, at = "the function returns normally", nd.Pos()
				}
				return s
			}
			if isParseNode(nd) {
				s.p, s.np = meet(s.np, s.p), -1
			}
			inspectNoLit(nd, func(x ast.Node) bool {
				as, ok := x.(*ast.AssignStmt)
				if !ok {
					return true
				}
				for i, l := range as.Lhs {
					switch {
					case isCarry(l):
						s = both(s, func(m int) int { return m &^ (fE | fEmptyC) })
						if len(as.Lhs) == len(as.Rhs) {
							r := ast.Unparen(as.Rhs[i])
							// carry = append(carry[:0], data...)
							if ap, ok := r.(*ast.CallExpr); ok && ap.Ellipsis.IsValid() && len(ap.Args) == 2 && isData(ap.Args[1]) {
								if sl, ok := ast.Unparen(ap.Args[0]).(*ast.SliceExpr); ok && isCarry(sl.X) && sl.Low == nil && sl.High != nil {
									if tv, ok := info.Types[sl.High]; ok && tv.Value != nil && tv.Value.String() == "0" {
										s = both(s, func(m int) int {
											m |= fE
											if m&fEmptyD != 0 {
												m |= fEmptyC
											}
											return m
										})
									}
								}
							}
							// carry = carry[:0] / nil
							if sl, ok := r.(*ast.SliceExpr); ok && sl.Low == nil && sl.High != nil {
								if tv, ok := info.Types[sl.High]; ok && tv.Value != nil && tv.Value.String() == "0" {
									s = both(s, func(m int) int { return m | fEmptyC })
								}
							}
							if id, ok := r.(*ast.Ident); ok && id.Name == "nil" {
								s = both(s, func(m int) int { return m | fEmptyC })
							}
						}
					case isData(l):
						s = both(s, func(m int) int { return m &^ (fE | fEmptyD) })
					}
				}
				return true
			})
			// go/cfg puts the value specs of a var declaration into the block
			var specs []ast.Spec
			if ds, ok := nd.(*ast.DeclStmt); ok {
				if gd, ok := ds.Decl.(*ast.GenDecl); ok {
					specs = gd.Specs
				}
			} else if vs, ok := nd.(*ast.ValueSpec); ok {
				specs = []ast.Spec{vs}
			}
			{
				{
					for _, sp := range specs {
						if vs, ok := sp.(*ast.ValueSpec); ok && len(vs.Values) == 0 {
							for _, nm := range vs.Names {
								if isCarry(nm) {
									s = both(s, func(m int) int { return m | fEmptyC })
								}
							}
						}
					}
				}
			}
			return s
		}
		edge := func(s st, b *cfg.Block, si int) st {
			for _, f := range fg.edgeFacts(b, si) {
				be, ok := ast.Unparen(f.E).(*ast.BinaryExpr)
				if !ok || f.Tag != nil {
					continue
				}
				call, ok := ast.Unparen(be.X).(*ast.CallExpr)
				if !ok || len(call.Args) != 1 {
					continue
				}
				if id, ok := ast.Unparen(call.Fun).(*ast.Ident); !ok || id.Name != "len" {
					continue
				}
				tv, ok := info.Types[be.Y]
				if !ok || tv.Value == nil || tv.Value.String() != "0" {
					continue
				}
				empty := (be.Op == token.GTR || be.Op == token.NEQ) && f.Neg || be.Op == token.EQL && !f.Neg
				if !empty {
					continue
				}
				if isCarry(call.Args[0]) {
					s = both(s, func(m int) int { return m | fEmptyC })
				}
				if isData(call.Args[0]) {
					s = both(s, func(m int) int { return m | fEmptyD })
				}
			}
			return s
		}
		in := map[int32]st{}
		for _, b := range fg.G.Blocks {
			in[b.Index] = st{-1, -1}
		}
		in[0] = st{0, -1}
		work := []*cfg.Block{fg.G.Blocks[0]}
		for steps := 0; len(work) > 0 && steps < 10000; steps++ {
			b := work[0]
			work = work[1:]
			s := in[b.Index]
			for _, nd := range b.Nodes {
				s = transfer(s, nd)
			}
			for si, sc := range b.Succs {
				o := s
				if len(b.Succs) == 2 {
					o = edge(s, b, si)
				}
				old := in[sc.Index]
				nw := st{meet(old.np, o.np), meet(old.p, o.p)}
				if nw != old {
					in[sc.Index] = nw
					work = append(work, sc)
				}
			}
		}
		// the transfer function records the first problem while iterating; the must-sets only shrink, so a
		// problem seen in an early iteration also holds at the fixpoint
		if problem == "" {
			c.ok(key, fn.Decl.Pos(), true, "after a parse, %s equals the unparsed remainder before every read and normal return", exprStr(carry))
		} else {
			c.bad(key, at, "after a chunk was parsed, %s is not known to hold the unparsed remainder when %s: it was neither copied from the remainder nor are both empty, so stale bytes of an earlier command are prepended to the next chunk (a different command is executed) or the tail of a split command is lost", exprStr(carry), problem)
		}
	}
	c.stat("carry_readers", n)
}

// definiteErrorReturn: the return carries an error on every execution: its error result is a non-nil
// expression other than a variable, or a variable that a dominating test showed to be non-nil.
func definiteErrorReturn(fg *FlowGraph, info *types.Info, fn *FuncInfo, r *ast.ReturnStmt) bool {
	if !returnsError(info, fn, r) {
		return false
	}
	last := ast.Unparen(r.Results[len(r.Results)-1])
	id, ok := last.(*ast.Ident)
	if !ok {
		return true
	}
	if _, isVar := info.ObjectOf(id).(*types.Var); !isVar || info.ObjectOf(id).Parent() == info.ObjectOf(id).Pkg().Scope() {
		return true // package-level error value
	}
	l := fg.LocOf(r)
	if !l.Valid() {
		return false
	}
	for k, v := range fg.identFacts(fg.DominatingFacts(l)) {
		if k.obj == info.ObjectOf(id) && k.isNil && !v {
			return true
		}
	}
	return false
}
