package main

import (
	"fmt"
	"go/ast"
	"go/token"
	"go/types"
	"strings"

	"golang.org/x/tools/go/cfg"
)

func init() {
	register(&Rule{ID: "R11.cursor-protocol", Props: []string{"C11"}, Floor: 8,
		Text: "every Collection iterator that takes a Cursor has the same normal form: under cursor != nil it reads cursor.Offset() and calls cursor.Step(offset) exactly once; its per-item callback increments the visit counter, then skips while count <= offset without invoking the user iterator, then calls nextStep(count, cursor, deadline), and only then the user iterator (sibling agreement over all iterators)",
		Run:  ruleCursorProtocol})
	register(&Rule{ID: "R11.cursor-report", Props: []string{"C11"}, Floor: 4,
		Text: "scanWriter sets hitLimit only on the edge numberItems == limit and stops the iteration there; writeFoot reports numberIters when hitLimit and 0 otherwise; Step is the only writer of numberIters and pushObject the only writer of numberItems/hitLimit",
		Run:  ruleCursorReport})
}

// steppingFuncs: functions of the collection package that step a Cursor parameter (directly or through another such function).
func steppingFuncs(c *Ctx) map[*types.Func]bool {
	out := map[*types.Func]bool{}
	for changed := true; changed; {
		changed = false
		for _, fn := range c.AllFuncs("internal/collection") {
			if out[fn.Obj] {
				continue
			}
			info := fn.Info()
			hit := false
			ast.Inspect(fn.Decl.Body, func(x ast.Node) bool {
				call, ok := x.(*ast.CallExpr)
				if !ok {
					return true
				}
				if se, ok := ast.Unparen(call.Fun).(*ast.SelectorExpr); ok && se.Sel.Name == "Step" {
					if tv, ok := info.Types[se.X]; ok && isNamedType(tv.Type, colPath, "Cursor") {
						hit = true
					}
				}
				if f := callee(info, call); f != nil && out[f] {
					hit = true
				}
				return true
			})
			if hit && recvNamed(fn.Obj) == nil {
				out[fn.Obj] = true
				changed = true
			}
		}
	}
	return out
}

// stepExactlyOnce runs a small forward dataflow over the callback: the state is a set of triples
// (steps ∈ {0,1,2+}, user iterator called, left through the skip edge).
// cursorSt is a set of (steps ∈ {0,1,2+}, user iterator called, left through the skip edge) triples.
type cursorSt = uint16

// prologueSummary: what a local closure that is called as a condition (`if advance() { … }`) does to the cursor
// state, per boolean result.
type prologueSummary struct {
	onTrue, onFalse cursorSt
	ok              bool
}

func stepExactlyOnce(info *types.Info, lfg *FlowGraph, lit *ast.FuncLit, cursorObj, iterObj, offsetObj types.Object, stepping map[*types.Func]bool) string {
	msg, _, _ := cursorFlow(info, lfg, cursorObj, iterObj, offsetObj, stepping, nil, false)
	return msg
}

// compose: the states reachable by running b after a.
func composeCursorSt(a, b cursorSt) cursorSt {
	var out cursorSt
	for i := uint(0); i < 12; i++ {
		if a&(1<<i) == 0 {
			continue
		}
		for j := uint(0); j < 12; j++ {
			if b&(1<<j) == 0 {
				continue
			}
			s1, c1, k1 := int(i/4), int(i/2)%2, int(i%2)
			s2, c2, k2 := int(j/4), int(j/2)%2, int(j%2)
			s := s1 + s2
			if s > 2 {
				s = 2
			}
			out |= 1 << uint(s*4+(c1|c2)*2+(k1|k2))
		}
	}
	return out
}

// cursorFlow runs the forward dataflow. prologues: local closures (by the variable they are bound to) with their
// summaries; asPrologue: analyse a prologue closure itself (returns are not judged, their states are collected
// per constant result).
func cursorFlow(info *types.Info, lfg *FlowGraph, cursorObj, iterObj, offsetObj types.Object, stepping map[*types.Func]bool, prologues map[types.Object]*prologueSummary, asPrologue bool) (string, cursorSt, cursorSt) {
	type st = cursorSt // bitset over 12 states: steps*4 + called*2 + skipped
	enc := func(steps, called, skipped int) st { return 1 << uint(steps*4+called*2+skipped) }
	var retTrue, retFalse st
	// prologueCond: the block's condition is P() or !P() for a summarised closure P
	prologueCond := func(b *cfg.Block) (*prologueSummary, bool) {
		cond, _ := lfg.condOf(b)
		if cond == nil {
			return nil, false
		}
		neg := false
		e := ast.Unparen(cond)
		if u, ok := e.(*ast.UnaryExpr); ok && u.Op == token.NOT {
			neg, e = true, ast.Unparen(u.X)
		}
		call, ok := e.(*ast.CallExpr)
		if !ok || len(call.Args) != 0 {
			return nil, false
		}
		id, ok := ast.Unparen(call.Fun).(*ast.Ident)
		if !ok {
			return nil, false
		}
		ps := prologues[info.ObjectOf(id)]
		if ps == nil || !ps.ok {
			return nil, false
		}
		return ps, neg
	}
	isStep := func(n ast.Node) int {
		k := 0
		inspectNoLit(n, func(x ast.Node) bool {
			call, ok := x.(*ast.CallExpr)
			if !ok {
				return true
			}
			if se, ok := ast.Unparen(call.Fun).(*ast.SelectorExpr); ok && se.Sel.Name == "Step" {
				if id, ok := ast.Unparen(se.X).(*ast.Ident); ok && info.ObjectOf(id) == cursorObj {
					k++
				}
			}
			if f := callee(info, call); f != nil && stepping[f] {
				for _, a := range call.Args {
					if id, ok := ast.Unparen(a).(*ast.Ident); ok && info.ObjectOf(id) == cursorObj {
						k++
						break
					}
				}
			}
			return true
		})
		return k
	}
	isIter := func(n ast.Node) bool {
		hit := false
		inspectNoLit(n, func(x ast.Node) bool {
			if call, ok := x.(*ast.CallExpr); ok {
				if id, ok := ast.Unparen(call.Fun).(*ast.Ident); ok && info.ObjectOf(id) == iterObj {
					hit = true
				}
			}
			return true
		})
		return hit
	}
	apply := func(s st, n ast.Node) (st, string) {
		k := isStep(n)
		it := isIter(n)
		if k == 0 && !it {
			return s, ""
		}
		var out st
		msg := ""
		for steps := 0; steps < 3; steps++ {
			for called := 0; called < 2; called++ {
				for skipped := 0; skipped < 2; skipped++ {
					if s&enc(steps, called, skipped) == 0 {
						continue
					}
					ns, nc := steps+k, called
					if ns > 2 {
						ns = 2
					}
					if it {
						if ns != 1 {
							msg = fmt.Sprintf("the user iterator can be called after %d cursor steps for the item (exactly one is required)", ns)
						}
						nc = 1
					}
					out |= enc(ns, nc, skipped)
				}
			}
		}
		return out, msg
	}
	isSkipEdge := func(b *cfg.Block, si int) bool {
		for _, f := range lfg.edgeFacts(b, si) {
			be, ok := ast.Unparen(f.E).(*ast.BinaryExpr)
			if !ok || f.Tag != nil {
				continue
			}
			var r ast.Expr
			switch {
			case be.Op == token.LEQ && !f.Neg, be.Op == token.GTR && f.Neg:
				r = be.Y
			case be.Op == token.GEQ && !f.Neg, be.Op == token.LSS && f.Neg:
				r = be.X
			default:
				continue
			}
			if id, ok := ast.Unparen(r).(*ast.Ident); ok && info.ObjectOf(id) == offsetObj {
				return true
			}
		}
		return false
	}
	in := map[int32]st{0: enc(0, 0, 0)}
	work := []*cfg.Block{lfg.G.Blocks[0]}
	problem := ""
	for len(work) > 0 {
		b := work[0]
		work = work[1:]
		s := in[b.Index]
		for _, n := range b.Nodes {
			var m string
			s, m = apply(s, n)
			if m != "" && problem == "" {
				problem = m
			}
			if r, ok := n.(*ast.ReturnStmt); ok && asPrologue {
				if len(r.Results) == 1 {
					switch boolConst(info, r.Results[0]) {
					case '1':
						retTrue |= s
					case '0':
						retFalse |= s
					default:
						problem = "the prologue closure returns a value that is not a boolean constant"
					}
				}
			} else if ok {
				for steps := 0; steps < 3; steps++ {
					for called := 0; called < 2; called++ {
						for skipped := 0; skipped < 2; skipped++ {
							if s&enc(steps, called, skipped) == 0 {
								continue
							}
							switch {
							case skipped == 1 && steps != 0:
								problem = "an item skipped by the offset test can step the cursor: the skipped prefix was already counted by cursor.Step(offset), so the reported cursor runs ahead and the next page skips entries"
							case skipped == 1 && called == 1:
								problem = "an item skipped by the offset test can still reach the user iterator"
							case skipped == 0 && steps == 0:
								problem = "an item that passes the offset test can leave the callback without stepping the cursor: the reported cursor lags and the next page repeats entries"
							case steps >= 2:
								problem = "an item can step the cursor more than once"
							}
						}
					}
				}
			}
		}
		ps, psNeg := prologueCond(b)
		for si, sc := range b.Succs {
			out := s
			if ps != nil && len(b.Succs) == 2 {
				// the call ran the closure: compose its effect for the result this edge stands for
				onTrue := (si == 0) != psNeg
				if onTrue {
					out = composeCursorSt(s, ps.onTrue)
				} else {
					out = composeCursorSt(s, ps.onFalse)
				}
			}
			if len(b.Succs) == 2 && isSkipEdge(b, si) {
				var o2 st
				for i := uint(0); i < 12; i++ {
					if out&(1<<i) != 0 {
						o2 |= 1 << (i | 1)
					}
				}
				out = o2
			}
			if in[sc.Index]|out != in[sc.Index] {
				in[sc.Index] |= out
				work = append(work, sc)
			} else if _, seen := in[sc.Index]; !seen {
				in[sc.Index] = out
				work = append(work, sc)
			}
		}
	}
	return problem, retTrue, retFalse
}

func ruleCursorProtocol(c *Ctx) {
	n := 0
	stepping := steppingFuncs(c)
	for _, fn := range c.AllFuncs("internal/collection") {
		if recvNamed(fn.Obj) == nil || recvNamed(fn.Obj).Obj().Name() != "Collection" {
			continue
		}
		info := fn.Info()
		var cursorObj, iterObj types.Object
		for _, p := range fn.Decl.Type.Params.List {
			for _, nm := range p.Names {
				o := info.ObjectOf(nm)
				if isNamedType(o.Type(), colPath, "Cursor") {
					cursorObj = o
				}
				if _, ok := o.Type().Underlying().(*types.Signature); ok {
					iterObj = o
				}
			}
		}
		if cursorObj == nil || iterObj == nil {
			continue
		}
		n++
		name := fn.Obj.Name()
		fg := newFlowGraph(info, fn.Decl.Body)
		// (1) offset := cursor.Offset(); cursor.Step(offset) under cursor != nil, exactly once
		isCursorCall := func(call *ast.CallExpr, m string) bool {
			se, ok := ast.Unparen(call.Fun).(*ast.SelectorExpr)
			if !ok || se.Sel.Name != m {
				return false
			}
			id, ok := ast.Unparen(se.X).(*ast.Ident)
			return ok && info.ObjectOf(id) == cursorObj
		}
		offs := fg.Find(func(x ast.Node) bool { call, ok := x.(*ast.CallExpr); return ok && isCursorCall(call, "Offset") })
		steps := fg.Find(func(x ast.Node) bool { call, ok := x.(*ast.CallExpr); return ok && isCursorCall(call, "Step") })
		var offsetObj types.Object
		okHead := len(offs) == 1 && len(steps) == 1
		// the same two steps moved into a helper: offset := cursorStart(cursor), called once, unconditionally
		if len(offs) == 0 && len(steps) == 0 {
			var starts []*ast.AssignStmt
			inspectNoLit(fn.Decl.Body, func(x ast.Node) bool {
				as, ok := x.(*ast.AssignStmt)
				if !ok || len(as.Lhs) != 1 || len(as.Rhs) != 1 {
					return true
				}
				call, ok := ast.Unparen(as.Rhs[0]).(*ast.CallExpr)
				if !ok || len(call.Args) != 1 {
					return true
				}
				if id, ok := ast.Unparen(call.Args[0]).(*ast.Ident); !ok || info.ObjectOf(id) != cursorObj {
					return true
				}
				if f := callee(info, call); f != nil && cursorStartHelper(c, f) {
					starts = append(starts, as)
				}
				return true
			})
			if len(starts) == 1 {
				if id, ok := starts[0].Lhs[0].(*ast.Ident); ok {
					offsetObj = info.ObjectOf(id)
				}
				l := fg.LocOf(starts[0])
				// executed on every path that reaches the traversal: it dominates every function literal that follows
				okHelper := l.Valid() && offsetObj != nil
				if okHelper {
					c.ok(name+"/offset-and-step", starts[0].Pos(), true, "offset is obtained from a helper that reads the cursor offset and pre-steps it once under cursor != nil")
				} else {
					c.bad(name+"/offset-and-step", fn.Decl.Pos(), "the iterator does not read the cursor offset and pre-step it exactly once under cursor != nil: resumed pages start at the wrong element or the reported cursor is off")
				}
				goto callbacks
			}
		}
		if okHead {
			if as, ok := offs[0].Block.Nodes[offs[0].Idx].(*ast.AssignStmt); ok && len(as.Lhs) == 1 {
				if id, ok := as.Lhs[0].(*ast.Ident); ok {
					offsetObj = info.ObjectOf(id)
				}
			}
			sc := steps[0].Node.(*ast.CallExpr)
			if id, ok := ast.Unparen(sc.Args[0]).(*ast.Ident); !ok || info.ObjectOf(id) != offsetObj || offsetObj == nil {
				okHead = false
			}
			for _, l := range []Loc{offs[0], steps[0]} {
				guarded := false
				for k, v := range fg.identFacts(fg.DominatingFacts(l)) {
					if k.obj == cursorObj && k.isNil && !v {
						guarded = true
					}
				}
				if !guarded {
					okHead = false
				}
			}
			if !fg.Dominates(offs[0], steps[0]) {
				okHead = false
			}
		}
		c.check(okHead, name+"/offset-and-step", fn.Decl.Pos(), "offset = cursor.Offset(); cursor.Step(offset) exactly once under cursor != nil",
			"the iterator does not read the cursor offset and pre-step it exactly once under cursor != nil: resumed pages start at the wrong element or the reported cursor is off")
	callbacks:
		if offsetObj == nil {
			continue
		}
		// prologue closures: local closures without parameters and with a bool result that step the cursor
		// (advance := func() (skip bool) { count++; if count <= offset { return true }; nextStep(…); return false })
		prologues := map[types.Object]*prologueSummary{}
		prologueLits := map[*ast.FuncLit]bool{}
		ast.Inspect(fn.Decl.Body, func(x ast.Node) bool {
			as, ok := x.(*ast.AssignStmt)
			if !ok || len(as.Lhs) != 1 || len(as.Rhs) != 1 {
				return true
			}
			lit, ok := ast.Unparen(as.Rhs[0]).(*ast.FuncLit)
			id, ok2 := as.Lhs[0].(*ast.Ident)
			if !ok || !ok2 || len(lit.Type.Params.List) != 0 || lit.Type.Results == nil || len(lit.Type.Results.List) != 1 {
				return true
			}
			if countAssignments(info, fn.Decl.Body, info.ObjectOf(id)) != 1 {
				return true
			}
			pfg := newFlowGraph(info, lit.Body)
			msg, onT, onF := cursorFlow(info, pfg, cursorObj, iterObj, offsetObj, stepping, nil, true)
			if msg == "" && (onT|onF) != 0 {
				// the closure must be a complete prologue: skipped ⇒ no step, not skipped ⇒ exactly one step, and the
				// counter is incremented before the offset test
				enc := func(steps, called, skipped int) cursorSt { return 1 << uint(steps*4+called*2+skipped) }
				complete := (onT|onF)&^(enc(0, 0, 1)|enc(1, 0, 0)) == 0
				incBefore := false
				for _, b := range pfg.G.Blocks {
					cond, _ := pfg.condOf(b)
					be, ok := ast.Unparen(cond).(*ast.BinaryExpr)
					if !ok {
						continue
					}
					for _, side := range []ast.Expr{be.X, be.Y} {
						if oid, ok := ast.Unparen(side).(*ast.Ident); ok && info.ObjectOf(oid) == offsetObj {
							other := be.X
							if side == be.X {
								other = be.Y
							}
							if cid, ok := ast.Unparen(other).(*ast.Ident); ok {
								for _, inc := range pfg.Find(func(y ast.Node) bool { s, ok := y.(*ast.IncDecStmt); return ok && s.Tok == token.INC }) {
									if iid, ok := inc.Node.(*ast.IncDecStmt).X.(*ast.Ident); ok && info.ObjectOf(iid) == info.ObjectOf(cid) && pfg.Dominates(inc, Loc{b, len(b.Nodes) - 1, nil}) {
										incBefore = true
									}
								}
							}
						}
					}
				}
				pkey := name + "/prologue-" + id.Name
				if complete && incBefore {
					prologues[info.ObjectOf(id)] = &prologueSummary{onTrue: onT, onFalse: onF, ok: true}
					prologueLits[lit] = true
					c.ok(pkey, lit.Pos(), true, "count++ → offset test → one cursor step for an item that is not skipped, none for a skipped one")
				} else {
					c.bad(pkey, lit.Pos(), "the closure that counts and steps for the callbacks does not step exactly once for an item past the offset and not at all for a skipped one, or tests the offset before counting")
				}
			}
			return true
		})
		// (2..4) per-item callbacks that invoke the user iterator
		ncb := 0
		ast.Inspect(fn.Decl.Body, func(x ast.Node) bool {
			lit, ok := x.(*ast.FuncLit)
			if !ok {
				return true
			}
			lfg := newFlowGraph(info, lit.Body)
			calls := lfg.Find(func(y ast.Node) bool {
				call, ok := y.(*ast.CallExpr)
				if !ok {
					return false
				}
				id, ok := ast.Unparen(call.Fun).(*ast.Ident)
				return ok && info.ObjectOf(id) == iterObj
			})
			if len(calls) == 0 {
				return true
			}
			ncb++
			key := fmt.Sprintf("%s/callback%d", name, ncb)
			incs := lfg.Find(func(y ast.Node) bool { s, ok := y.(*ast.IncDecStmt); return ok && s.Tok == token.INC })
			nexts := lfg.FindCalls(func(f *types.Func, call *ast.CallExpr) bool { return isFunc(f, colPath, "nextStep") })
			var problems []string
			// a callback that runs a prologue closure: the closure holds the count / skip / step sequence (checked
			// below, once per closure) and the composed dataflow decides this callback
			usesPrologue := false
			inspectNoLit(lit.Body, func(y ast.Node) bool {
				if call, ok := y.(*ast.CallExpr); ok {
					if id, ok := ast.Unparen(call.Fun).(*ast.Ident); ok && prologues[info.ObjectOf(id)] != nil {
						usesPrologue = true
					}
				}
				return true
			})
			shapeTargets := calls
			shapeFG := lfg
			if usesPrologue {
				shapeTargets = nil
			}
			for _, ic := range shapeTargets {
				lfg := shapeFG
				// the skip test: a dominating fact !(count <= offset)
				var countObj types.Object
				skipOK := false
				var skipBlock *cfg.Block
				x := ic.Block
				_ = x
				for _, b := range lfg.G.Blocks {
					cond, _ := lfg.condOf(b)
					be, ok := ast.Unparen(cond).(*ast.BinaryExpr)
					if !ok {
						continue
					}
					var l, r ast.Expr
					skipSucc := 0 // the successor taken when the item is skipped (count <= offset)
					switch be.Op {
					case token.LEQ:
						l, r = be.X, be.Y
					case token.GEQ:
						l, r = be.Y, be.X
					case token.GTR: // count > offset: the skip is the false edge
						l, r, skipSucc = be.X, be.Y, 1
					case token.LSS: // offset < count
						l, r, skipSucc = be.Y, be.X, 1
					default:
						continue
					}
					lid, ok1 := ast.Unparen(l).(*ast.Ident)
					rid, ok2 := ast.Unparen(r).(*ast.Ident)
					if !ok1 || !ok2 || info.ObjectOf(rid) != offsetObj {
						continue
					}
					// the user iterator must be reachable only through the false edge
					viaTrue, _ := lfg.Reach(PathQuery{From: Loc{b, len(b.Nodes) - 1, nil}, Target: func(t Loc) bool { return t.Block == ic.Block && t.Idx == ic.Idx },
						EdgeOK: func(from *cfg.Block, si int) bool { return !(from == b && si != skipSucc) }})
					if lfg.BlockDominates(b, ic.Block) && !viaTrue {
						skipOK = true
						skipBlock = b
						countObj = info.ObjectOf(lid)
					}
				}
				if !skipOK {
					problems = append(problems, "the user iterator is not guarded by the false edge of count <= offset")
					continue
				}
				// count++ dominates the skip test
				incOK := false
				for _, inc := range incs {
					if id, ok := inc.Node.(*ast.IncDecStmt).X.(*ast.Ident); ok && info.ObjectOf(id) == countObj {
						if lfg.Dominates(inc, Loc{skipBlock, len(skipBlock.Nodes) - 1, nil}) {
							incOK = true
						}
					}
				}
				if !incOK {
					problems = append(problems, "the visit counter is not incremented before the skip test")
				}
				// nextStep(count, cursor, deadline) between the skip test and the user iterator
				nsOK := false
				for _, ns := range nexts {
					call := ns.Node.(*ast.CallExpr)
					a0, ok0 := ast.Unparen(call.Args[0]).(*ast.Ident)
					a1, ok1 := ast.Unparen(call.Args[1]).(*ast.Ident)
					if ok0 && ok1 && info.ObjectOf(a0) == countObj && info.ObjectOf(a1) == cursorObj &&
						lfg.BlockDominates(skipBlock, ns.Block) && lfg.Dominates(ns, ic) {
						nsOK = true
					}
				}
				if !nsOK {
					problems = append(problems, "nextStep(count, cursor, deadline) does not lie between the skip test and the user iterator")
				}
			}
			// exactly-once: along every path through the callback the cursor is stepped 0 times when the item
			// is skipped by the offset test, and exactly once otherwise, before the user iterator is called
			if msg, _, _ := cursorFlow(info, lfg, cursorObj, iterObj, offsetObj, stepping, prologues, false); msg != "" {
				problems = append(problems, msg)
			}
			if len(problems) == 0 && usesPrologue {
				c.ok(key, lit.Pos(), true, "prologue closure (count++ → skip → nextStep) → user iterator: exactly one step for an item that is not skipped, none for a skipped one")
			} else if len(problems) == 0 {
				c.ok(key, lit.Pos(), true, "count++ → skip while count <= offset → nextStep → user iterator")
			} else {
				c.bad(key, lit.Pos(), "%s", strings.Join(problems, "; "))
			}
			return true
		})
		if ncb == 0 {
			c.bad(name+"/callbacks", fn.Decl.Pos(), "no per-item callback invoking the user iterator found")
		}
	}
	c.stat("cursor_iterators", n)
	if n < 8 {
		c.bad("iterators", 0, "expected at least 8 Collection iterators taking a Cursor, found %d", n)
	}
}

func ruleCursorReport(c *Ctx) {
	pk := "internal/server"
	hit := c.Field(pk, "scanWriter", "hitLimit")
	iters := c.Field(pk, "scanWriter", "numberIters")
	items := c.Field(pk, "scanWriter", "numberItems")
	limit := c.Field(pk, "scanWriter", "limit")
	if hit == nil || iters == nil || items == nil || limit == nil {
		c.und("anchors", 0, "scanWriter fields not found")
		return
	}
	writers := map[*types.Var]map[string]bool{hit: {}, iters: {}, items: {}}
	for _, fn := range c.AllFuncs(pk) {
		info := fn.Info()
		ast.Inspect(fn.Decl.Body, func(x ast.Node) bool {
			var lhs []ast.Expr
			switch s := x.(type) {
			case *ast.AssignStmt:
				lhs = s.Lhs
			case *ast.IncDecStmt:
				lhs = []ast.Expr{s.X}
			}
			for _, l := range lhs {
				if f := selField(info, l); f != nil {
					if m, ok := writers[f]; ok {
						m[fn.Obj.Name()] = true
					}
				}
			}
			return true
		})
	}
	c.check(len(writers[iters]) == 1 && writers[iters]["Step"], "numberIters-writer", 0, "only scanWriter.Step writes numberIters", fmt.Sprintf("numberIters is written by %v", sortedKeys(writers[iters])))
	// pushObject and the helpers only it calls are one unit
	pushUnit := map[string]bool{"pushObject": true}
	for f := range c.calledOnlyFrom("pushObject") {
		pushUnit[f.Name()] = true
	}
	onlyPush := func(m map[string]bool) bool {
		if len(m) == 0 {
			return false
		}
		for w := range m {
			if !pushUnit[w] {
				return false
			}
		}
		return true
	}
	c.check(onlyPush(writers[hit]), "hitLimit-writer", 0, "only pushObject (and helpers only it calls) writes hitLimit", fmt.Sprintf("hitLimit is written by %v", sortedKeys(writers[hit])))
	c.check(onlyPush(writers[items]), "numberItems-writer", 0, "only pushObject (and helpers only it calls) writes numberItems", fmt.Sprintf("numberItems is written by %v", sortedKeys(writers[items])))
	// pushObject: hitLimit = true only under numberItems == limit, and that block returns false
	po := c.Func(pk, "scanWriter", "pushObject")
	wf := c.Func(pk, "scanWriter", "writeFoot")
	if po == nil || wf == nil {
		c.und("anchors2", 0, "pushObject or writeFoot not found")
		return
	}
	info := po.Info()
	fg := newFlowGraph(info, po.Decl.Body)
	stores := fg.Find(func(x ast.Node) bool {
		as, ok := x.(*ast.AssignStmt)
		return ok && len(as.Lhs) == 1 && selField(info, as.Lhs[0]) == hit
	})
	// a helper of pushObject that reports "the limit was reached" (limitFlagHelpers): its stores count when
	// it answers true after them and pushObject stops wherever it answered true
	lfh := limitFlagHelpers(c, po, items, limit)
	nHelperStores := 0
	helperOK := true
	for h, hfi := range lfh {
		hinfo := hfi.Info()
		hfg := newFlowGraph(hinfo, hfi.Decl.Body)
		for _, st := range hfg.Find(func(x ast.Node) bool {
			as, ok := x.(*ast.AssignStmt)
			return ok && len(as.Lhs) == 1 && selField(hinfo, as.Lhs[0]) == hit
		}) {
			nHelperStores++
			g := false
			for _, f := range hfg.DominatingFacts(st) {
				be, ok := ast.Unparen(f.E).(*ast.BinaryExpr)
				if ok && (!f.Neg && be.Op == token.EQL || f.Neg && be.Op == token.NEQ) && (selField(hinfo, be.X) == items && selField(hinfo, be.Y) == limit || selField(hinfo, be.X) == limit && selField(hinfo, be.Y) == items) {
					g = true
				}
			}
			answersFalse, _ := hfg.Reach(PathQuery{From: st, Target: func(l Loc) bool {
				r, ok := l.Node.(*ast.ReturnStmt)
				return ok && (len(r.Results) != 1 || boolConst(hinfo, r.Results[0]) != '1')
			}})
			if !g || answersFalse {
				helperOK = false
			}
		}
		// in pushObject: no return that continues the iteration is dominated by "the helper answered true"
		for _, r := range fg.Returns() {
			rs := r.Node.(*ast.ReturnStmt)
			if len(rs.Results) == 0 || boolConst(info, rs.Results[0]) == '0' {
				continue
			}
			for _, f := range fg.DominatingFacts(r) {
				if call, ok := ast.Unparen(f.E).(*ast.CallExpr); ok && !f.Neg && callee(info, call) == h {
					helperOK = false
				}
			}
		}
	}
	okStore := len(stores)+nHelperStores > 0 && helperOK
	for _, s := range stores {
		g := false
		for _, f := range fg.DominatingFacts(s) {
			be, ok := ast.Unparen(f.E).(*ast.BinaryExpr)
			// numberItems == limit holds: as the true edge of ==, or the false edge of != (an inverted guard)
			if ok && (!f.Neg && be.Op == token.EQL || f.Neg && be.Op == token.NEQ) && (selField(info, be.X) == items && selField(info, be.Y) == limit || selField(info, be.X) == limit && selField(info, be.Y) == items) {
				g = true
			}
		}
		// the path from the store reaches only returns whose first result is false
		contTrue, _ := fg.Reach(PathQuery{From: s, Target: func(l Loc) bool {
			r, ok := l.Node.(*ast.ReturnStmt)
			return ok && len(r.Results) > 0 && boolConst(info, r.Results[0]) != '0'
		}})
		if !g || contTrue {
			okStore = false
		}
	}
	c.check(okStore, "hitLimit-edge", po.Decl.Pos(), "hitLimit is set only when numberItems == limit and the iteration stops there", "hitLimit is set on another edge, or the iteration continues after the limit was hit: the reported cursor does not resume where the page ended")
	// writeFoot: the value reported as the cursor is numberIters exactly when hitLimit, and 0 otherwise —
	// evaluated for the two scenarios (hitLimit true / false) by a small value-kind dataflow that follows
	// the local holding the cursor and, one level, a helper that computes it
	winfo := wf.Info()
	const (
		kIters = 1 << iota
		kZero
		kOther
	)
	var kindOf func(info *types.Info, e ast.Expr, hitTrue bool, depth int) int
	scenarioEdgeOK := func(fg *FlowGraph, info *types.Info, hitTrue bool) func(*cfg.Block, int) bool {
		return func(b *cfg.Block, si int) bool {
			for _, f := range fg.edgeFacts(b, si) {
				if f.Tag == nil && selField(info, f.E) == hit {
					if (!f.Neg) != hitTrue {
						return false
					}
				}
			}
			return true
		}
	}
	helperKinds := func(f *types.Func, hitTrue bool, depth int) int {
		fi := c.FuncOf(f)
		if fi == nil || depth <= 0 {
			return kOther
		}
		hfg := newFlowGraph(fi.Info(), fi.Decl.Body)
		kinds := 0
		ok := scenarioEdgeOK(hfg, fi.Info(), hitTrue)
		for _, r := range hfg.Returns() {
			rr := r
			if reach, _ := hfg.Reach(PathQuery{Target: func(l Loc) bool { return l.Block == rr.Block && l.Idx == rr.Idx }, EdgeOK: ok}); !reach {
				continue
			}
			rs := r.Node.(*ast.ReturnStmt)
			if len(rs.Results) != 1 {
				kinds |= kOther
				continue
			}
			kinds |= kindOf(fi.Info(), rs.Results[0], hitTrue, depth-1)
		}
		return kinds
	}
	kindOf = func(info *types.Info, e ast.Expr, hitTrue bool, depth int) int {
		e = ast.Unparen(e)
		if selField(info, e) == iters {
			return kIters
		}
		if tv, ok := info.Types[e]; ok && tv.Value != nil && tv.Value.String() == "0" {
			return kZero
		}
		if call, ok := e.(*ast.CallExpr); ok && len(call.Args) == 0 {
			if f := callee(info, call); f != nil && c.FuncOf(f) != nil {
				return helperKinds(f, hitTrue, depth)
			}
		}
		return kOther
	}
	// the local that holds the cursor: defined from numberIters or from a helper whose results are of these kinds
	var cur types.Object
	ast.Inspect(wf.Decl.Body, func(x ast.Node) bool {
		// cursor := sw.numberIters, or  var cursor uint64 … cursor = sw.numberIters
		if as, ok := x.(*ast.AssignStmt); ok && (as.Tok == token.DEFINE || as.Tok == token.ASSIGN) && len(as.Lhs) == 1 && len(as.Rhs) == 1 && cur == nil {
			if k := kindOf(winfo, as.Rhs[0], true, 1) | kindOf(winfo, as.Rhs[0], false, 1); k&kOther == 0 && k&kIters != 0 {
				if id, ok := as.Lhs[0].(*ast.Ident); ok {
					cur = winfo.ObjectOf(id)
				}
			}
		}
		return true
	})
	okFoot := cur != nil
	if okFoot {
		wfg := newFlowGraph(winfo, wf.Decl.Body)
		for _, hitTrue := range []bool{true, false} {
			edgeOK := scenarioEdgeOK(wfg, winfo, hitTrue)
			in := map[int32]int{}
			seen := map[int32]bool{0: true}
			work := []*cfg.Block{wfg.G.Blocks[0]}
			final := 0
			for len(work) > 0 {
				b := work[0]
				work = work[1:]
				st := in[b.Index]
				for _, nd := range b.Nodes {
					if as, ok := nd.(*ast.AssignStmt); ok && len(as.Lhs) == len(as.Rhs) {
						for i, l := range as.Lhs {
							if id, ok := ast.Unparen(l).(*ast.Ident); ok && winfo.ObjectOf(id) == cur {
								st = kindOf(winfo, as.Rhs[i], hitTrue, 1)
							}
						}
					}
					// var cursor uint64 (the zero value), var cursor = …
					if vs, ok := nd.(*ast.ValueSpec); ok {
						for i, nm := range vs.Names {
							if winfo.ObjectOf(nm) == cur {
								if len(vs.Values) == len(vs.Names) {
									st = kindOf(winfo, vs.Values[i], hitTrue, 1)
								} else {
									st = kZero
								}
							}
						}
					}
				}
				if len(b.Succs) == 0 {
					final |= st
				}
				for si, sc := range b.Succs {
					if !edgeOK(b, si) {
						continue
					}
					if !seen[sc.Index] || in[sc.Index]|st != in[sc.Index] {
						seen[sc.Index] = true
						in[sc.Index] |= st
						work = append(work, sc)
					}
				}
			}
			want := kZero
			if hitTrue {
				want = kIters
			}
			if final != want {
				okFoot = false
			}
		}
	}
	c.check(okFoot, "writeFoot-cursor", wf.Decl.Pos(), "the reported cursor is numberIters, replaced by 0 exactly when !hitLimit", "writeFoot does not report numberIters when the limit was hit and 0 otherwise")
}

// cursorStartHelper: f(cursor Cursor) uint64 reads cursor.Offset() and calls cursor.Step(offset) exactly once,
// under cursor != nil, and returns that offset (the zero value otherwise).
func cursorStartHelper(c *Ctx, f *types.Func) bool {
	fi := c.FuncOf(f)
	if fi == nil || fi.Decl.Type.Params == nil || len(fi.Decl.Type.Params.List) != 1 || len(fi.Decl.Type.Params.List[0].Names) != 1 {
		return false
	}
	info := fi.Info()
	cur := info.ObjectOf(fi.Decl.Type.Params.List[0].Names[0])
	if cur == nil || !isNamedType(cur.Type(), colPath, "Cursor") {
		return false
	}
	fg := newFlowGraph(info, fi.Decl.Body)
	isCall := func(x ast.Node, m string) bool {
		call, ok := x.(*ast.CallExpr)
		if !ok {
			return false
		}
		se, ok := ast.Unparen(call.Fun).(*ast.SelectorExpr)
		if !ok || se.Sel.Name != m {
			return false
		}
		id, ok := ast.Unparen(se.X).(*ast.Ident)
		return ok && info.ObjectOf(id) == cur
	}
	offs := fg.Find(func(x ast.Node) bool { return isCall(x, "Offset") })
	steps := fg.Find(func(x ast.Node) bool { return isCall(x, "Step") })
	if len(offs) != 1 || len(steps) != 1 || !fg.Dominates(offs[0], steps[0]) {
		return false
	}
	var off types.Object
	if as, ok := offs[0].Block.Nodes[offs[0].Idx].(*ast.AssignStmt); ok && len(as.Lhs) == 1 {
		if id, ok := as.Lhs[0].(*ast.Ident); ok {
			off = info.ObjectOf(id)
		}
	}
	sc := steps[0].Node.(*ast.CallExpr)
	if id, ok := ast.Unparen(sc.Args[0]).(*ast.Ident); !ok || off == nil || info.ObjectOf(id) != off {
		return false
	}
	for _, l := range []Loc{offs[0], steps[0]} {
		guarded := false
		for k, v := range fg.identFacts(fg.DominatingFacts(l)) {
			if k.obj == cur && k.isNil && !v {
				guarded = true
			}
		}
		if !guarded {
			return false
		}
	}
	// every return hands back the offset variable (or the constant 0 where the cursor is nil)
	for _, r := range fg.Returns() {
		rs := r.Node.(*ast.ReturnStmt)
		if len(rs.Results) == 0 {
			continue // named result
		}
		if len(rs.Results) != 1 {
			return false
		}
		if id, ok := ast.Unparen(rs.Results[0]).(*ast.Ident); ok && info.ObjectOf(id) == off {
			continue
		}
		if tv, ok := info.Types[rs.Results[0]]; ok && tv.Value != nil && tv.Value.String() == "0" {
			continue
		}
		return false
	}
	return true
}

// R11.one-scan-per-cursor
func init() {
	register(&Rule{ID: "R11.one-scan-per-cursor", Props: []string{"C11"}, Floor: 5,
		Text: "a request's cursor belongs to one iteration: every iterator of the collection skips Offset() entries and steps the cursor by that offset when it starts (R11.cursor-protocol), so a second iterator given the same cursor skips the offset again and reports a position that counts it twice. In every function of the server, no call that hands a value as collection.Cursor to an iterator is followed on any path by another such call with the same value — in particular none sits in a loop (path search on go/cfg from each call to the next). Scanning one id range per MATCH pattern with the request's scan writer loses the first CURSOR entries of every range but the first",
		Run:  ruleOneScanPerCursor})
}

func ruleOneScanPerCursor(c *Ctx) {
	n := 0
	for _, fn := range c.AllFuncs("internal/server") {
		if fn.Decl.Body == nil {
			continue
		}
		info := fn.Info()
		// calls with an argument passed for a parameter of interface type collection.Cursor
		type site struct {
			call *ast.CallExpr
			cur  string
		}
		var sites []site
		ast.Inspect(fn.Decl.Body, func(x ast.Node) bool {
			call, ok := x.(*ast.CallExpr)
			if !ok {
				return true
			}
			f := callee(info, call)
			if f == nil {
				return true
			}
			sig, ok := f.Type().(*types.Signature)
			if !ok {
				return true
			}
			for i := 0; i < sig.Params().Len() && i < len(call.Args); i++ {
				if isNamedType(sig.Params().At(i).Type(), modPath+"/internal/collection", "Cursor") {
					if tv, ok := info.Types[call.Args[i]]; ok && tv.IsNil() {
						continue
					}
					sites = append(sites, site{call, exprStr(call.Args[i])})
				}
			}
			return true
		})
		if len(sites) == 0 {
			continue
		}
		// the graph of the function or of the literal the call sits in
		graphs := map[ast.Node]*FlowGraph{}
		graphOf := func(call *ast.CallExpr) *FlowGraph {
			var body *ast.BlockStmt = fn.Decl.Body
			if lit := enclosingFuncLit(c.Program, call); lit != nil {
				body = lit.Body
			}
			if graphs[body] == nil {
				graphs[body] = newFlowGraph(info, body)
			}
			return graphs[body]
		}
		ord := map[string]int{}
		for _, s := range sites {
			n++
			fg := graphOf(s.call)
			desc := exprStr(s.call.Fun)
			ord[desc]++
			key := fmt.Sprintf("%s→%s", funcName(fn.Obj), desc)
			if ord[desc] > 1 {
				key += fmt.Sprintf("#%d", ord[desc])
			}
			from := fg.LocOf(s.call)
			if !from.Valid() {
				c.und(key, s.call.Pos(), "call not found in its flow graph")
				continue
			}
			again, w := fg.Reach(PathQuery{From: from, Correlate: true, Target: func(l Loc) bool {
				for _, t := range sites {
					if t.cur == s.cur && graphOf(t.call) == fg && containsNode(l.Block.Nodes[l.Idx], t.call) {
						return true
					}
				}
				return false
			}})
			c.checkPath(!again, key, s.call.Pos(), w, "no second iteration receives the cursor "+s.cur+" after this one",
				"after this iteration another one (or this one again, in a loop) receives the same cursor "+s.cur+": each iterator skips the cursor's offset and steps the cursor by it when it starts, so entries at the head of the later iteration are skipped although they were never returned, and the position reported for the next page counts the offset twice — pages lose entries")
		}
	}
	if n == 0 {
		c.und("sites", 0, "no call hands a value to an iterator as collection.Cursor")
	}
	c.stat("cursor_iteration_sites", n)
}

// limitFlagHelpers: the scanWriter methods that only pushObject calls and that return one boolean which is the
// constant true only under numberItems == limit (and the constant false otherwise): "the limit was reached".
func limitFlagHelpers(c *Ctx, po *FuncInfo, items, limit *types.Var) map[*types.Func]*FuncInfo {
	out := map[*types.Func]*FuncInfo{}
	for f := range c.calledOnlyFrom("pushObject") {
		if f == po.Obj {
			continue
		}
		fi := c.FuncOf(f)
		if fi == nil || fi.Decl.Body == nil {
			continue
		}
		sig := f.Type().(*types.Signature)
		if sig.Results().Len() != 1 {
			continue
		}
		if b, ok := sig.Results().At(0).Type().Underlying().(*types.Basic); !ok || b.Kind() != types.Bool {
			continue
		}
		info := fi.Info()
		fg := newFlowGraph(info, fi.Decl.Body)
		ok := true
		nTrue := 0
		for _, r := range fg.Returns() {
			rs := r.Node.(*ast.ReturnStmt)
			if len(rs.Results) != 1 {
				ok = false
				continue
			}
			switch boolConst(info, rs.Results[0]) {
			case '0':
			case '1':
				nTrue++
				at := false
				for _, ft := range fg.DominatingFacts(r) {
					be, isB := ast.Unparen(ft.E).(*ast.BinaryExpr)
					if isB && (!ft.Neg && be.Op == token.EQL || ft.Neg && be.Op == token.NEQ) && (selField(info, be.X) == items && selField(info, be.Y) == limit || selField(info, be.X) == limit && selField(info, be.Y) == items) {
						at = true
					}
				}
				if !at {
					ok = false
				}
			default:
				ok = false
			}
		}
		if ok && nTrue > 0 {
			out[f] = fi
		}
	}
	return out
}
